"""Self-test catalogue: breaking variants (must be reported) and preserving variants (must stay silent).

Each edit is (file relative to the package, exact old text occurring once, new text).
expect: property -> 'ok' | 'viol' | '<rule id>' (a violation naming that rule) | 'any'.
"""
P = "pool.py"
V = []


def v(name, edits, expect, tier="quick", base=""):
    V.append({"name": name, "edits": edits, "props": list(expect), "expect": expect, "tier": tier, "base": base})


ACQ = "        await self._enough_room.acquire()\n"
# ---------------------------------------------------------------- C01
v("01-acquire-after-create", [(P, ACQ, ""), (P, "        return task_id\n\n    def _get_running_task", "        await self._enough_room.acquire()\n        return task_id\n\n    def _get_running_task")],
  {"C01": "R01.1"})
v("02-release-in-cancellation", [(P, '        log.debug("Cancelled %s", self._task_name(task_id))\n', '        log.debug("Cancelled %s", self._task_name(task_id))\n        self._enough_room.release()\n')],
  {"C01": "R01.3"})
v("03-spawner-direct-create_task", [(P, """                await self._start_task(
                    coroutine,
                    group_name=group_name,
                    end_callback=end_callback,
                    cancel_callback=cancel_callback,
                )
            except CancelledError:
                # Either the task group or all tasks were cancelled, so this
                # meta tasks is not supposed to spawn any more tasks and can
                # return immediately.
                log.debug(
                    "Cancelled group '%s' after %s out of %s "
                    "tasks have been spawned",
                    group_name,
                    i,
                    num,
                )
                coroutine.close()
                return

    def apply(""", """                create_task(coroutine)
            except CancelledError:
                coroutine.close()
                return

    def apply(""")], {"C01": "R01.2"})
v("04-sleep-between-pop-and-release", [(P, "        self._enough_room.release()\n        log.info(\"Ended", "        await execute_optional(None)\n        self._enough_room.release()\n        log.info(\"Ended")],
  {"C01": "R01.5"})
v("04b-acquire-skipped-when-ignore_lock", [(P, ACQ, "        if not ignore_lock:\n            await self._enough_room.acquire()\n")], {"C01": "R01.1"})
v("04c-acquire-cancel-swallowed", [(P, ACQ, "        try:\n            await self._enough_room.acquire()\n        except CancelledError:\n            pass\n")], {"C01": "R01.1"})
v("04d-release-conditional", [(P, "        self._enough_room.release()\n        log.info(\"Ended", "        if custom_callback is not None:\n            self._enough_room.release()\n        log.info(\"Ended")], {"C01": "R01.3"})
v("04e-fastpath-counter-write", [(P, ACQ, "        if self._enough_room.locked():\n            await self._enough_room.acquire()\n        else:\n            self._enough_room._value -= 1\n")], {"C01": "viol"})
v("07-await-inside-async-with", [(P, "            group_reg.add(task_id)\n", "            group_reg.add(task_id)\n            await execute_optional(None)\n")], {"C01": "viol"})
v("04f-is_full-other", [(P, "        return self._enough_room.locked()\n", "        return self.num_running >= 5\n")], {"C01": "any"})
# preserving
v("P2-rename-locals", [(P, "        group_reg = self._task_groups.setdefault(\n            group_name, TaskGroupRegister()\n        )\n        async with group_reg:\n            task_id = self._num_started\n            self._num_started += 1\n            group_reg.add(task_id)",
   "        reg = self._task_groups.setdefault(\n            group_name, TaskGroupRegister()\n        )\n        async with reg:\n            task_id = self._num_started\n            self._num_started += 1\n            reg.add(task_id)")], {"C01": "ok"})
v("P3-log-lines", [(P, "        self._enough_room.release()\n        log.info(\"Ended", "        log.debug('releasing')\n        self._enough_room.release()\n        log.debug('released')\n        log.info(\"Ended")], {"C01": "ok"})
v("P5-ending-if-instead-of-try", [(P, """        try:
            self._tasks_ended[task_id] = self._tasks_running.pop(task_id)
        except KeyError:
            self._tasks_ended[task_id] = self._tasks_cancelled.pop(task_id)
""", """        if task_id in self._tasks_running:
            self._tasks_ended[task_id] = self._tasks_running.pop(task_id)
        else:
            self._tasks_ended[task_id] = self._tasks_cancelled.pop(task_id)
""")], {"C01": "ok"})
# (until round 13 the increment moved behind create_task counted as behaviour-preserving; seed C11l showed that it is not: with
#  asyncio.eager_task_factory the new task's first step runs inside create_task and a worker spawning into its own pool reads the same id)
v("06x-increment-after-create", [(P, "            self._num_started += 1\n            group_reg.add(task_id)\n", "            group_reg.add(task_id)\n"),
   (P, "                name=self._task_name(task_id),\n            )\n        return task_id", "                name=self._task_name(task_id),\n            )\n            self._num_started += 1\n        return task_id")], {"C11": "R11.1", "C01": "ok"})
v("P6-increment-after-create", [(P, "            self._num_started += 1\n            group_reg.add(task_id)\n", "            self._num_started += 1\n"),
   (P, "                name=self._task_name(task_id),\n            )\n        return task_id", "                name=self._task_name(task_id),\n            )\n            group_reg.add(task_id)\n        return task_id")], {"C01": "ok"})
v("P12-extract-move-helper", [(P, """        try:
            self._tasks_ended[task_id] = self._tasks_running.pop(task_id)
        except KeyError:
            self._tasks_ended[task_id] = self._tasks_cancelled.pop(task_id)
        self._enough_room.release()
""", """        self._file_as_ended(task_id)
        self._enough_room.release()
"""), (P, "    async def _task_wrapper(\n", """    def _file_as_ended(self, task_id: int) -> None:
        try:
            self._tasks_ended[task_id] = self._tasks_running.pop(task_id)
        except KeyError:
            self._tasks_ended[task_id] = self._tasks_cancelled.pop(task_id)

    async def _task_wrapper(
""")], {"C01": "ok"})
v("P13-wrapper-finally-as-handlers", [(P, """        try:
            return await awaitable
        except CancelledError:
            await self._task_cancellation(
                task_id, custom_callback=cancel_callback
            )
            return None
        finally:
            await self._task_ending(task_id, custom_callback=end_callback)
""", """        try:
            try:
                result = await awaitable
            except CancelledError:
                await self._task_cancellation(
                    task_id, custom_callback=cancel_callback
                )
                result = None
        except BaseException:
            await self._task_ending(task_id, custom_callback=end_callback)
            raise
        else:
            await self._task_ending(task_id, custom_callback=end_callback)
            return result
""")], {"C01": "ok"})


# ---------------------------------------------------------------- C02 / C03 / C12
WRAP_OLD = """        try:
            return await awaitable
        except CancelledError:
            await self._task_cancellation(
                task_id, custom_callback=cancel_callback
            )
            return None
        finally:
            await self._task_ending(task_id, custom_callback=end_callback)
"""
v("05-sleep-before-try", [(P, '        log.info("Started %s", self._task_name(task_id))\n', '        log.info("Started %s", self._task_name(task_id))\n        await execute_optional(None)\n')],
  {"C02": "R02.2", "C01": "viol"})
v("06-finally-to-else-and-handler", [(P, WRAP_OLD, """        try:
            result = await awaitable
        except CancelledError:
            await self._task_cancellation(
                task_id, custom_callback=cancel_callback
            )
            await self._task_ending(task_id, custom_callback=end_callback)
            return None
        else:
            await self._task_ending(task_id, custom_callback=end_callback)
            return result
""")], {"C02": "R02.3", "C03": "viol", "C01": "viol"})
v("08-callback-before-move", [(P, """        try:
            self._tasks_ended[task_id] = self._tasks_running.pop(task_id)
        except KeyError:
            self._tasks_ended[task_id] = self._tasks_cancelled.pop(task_id)
        self._enough_room.release()
        log.info("Ended %s", self._task_name(task_id))
        await execute_optional(custom_callback, args=(task_id,))
""", """        await execute_optional(custom_callback, args=(task_id,))
        try:
            self._tasks_ended[task_id] = self._tasks_running.pop(task_id)
        except KeyError:
            self._tasks_ended[task_id] = self._tasks_cancelled.pop(task_id)
        self._enough_room.release()
        log.info("Ended %s", self._task_name(task_id))
""")], {"C03": "R03.2", "C02": "viol", "C01": "viol"})
v("09-callbacks-swapped-in-start_task", [(P, "                    awaitable, task_id, end_callback, cancel_callback\n", "                    awaitable, task_id, cancel_callback, end_callback\n")], {"C03": "R03.5"})
v("10-except-baseexception", [(P, WRAP_OLD, WRAP_OLD.replace("except CancelledError:", "except BaseException:"))], {"C03": "viol"})
v("11-execute_optional-no-await", [("internals/helpers.py", "        return await cast(Awaitable[_R], function(*args, **kwargs))\n", "        return cast(_R, function(*args, **kwargs))\n")], {"C03": "R03.6"})
v("12b-cancellation-called-from-finally", [(P, "        finally:\n            await self._task_ending(task_id, custom_callback=end_callback)\n", "        finally:\n            await self._task_cancellation(task_id, custom_callback=None)\n            await self._task_ending(task_id, custom_callback=end_callback)\n")],
  {"C03": "viol"})
v("12c-cancel-cb-after-end", [(P, WRAP_OLD, """        cancelled = False
        try:
            return await awaitable
        except CancelledError:
            cancelled = True
            return None
        finally:
            await self._task_ending(task_id, custom_callback=end_callback)
            if cancelled:
                await execute_optional(cancel_callback, args=(task_id,))
""")], {"C03": "viol"})
v("12d-end-callback-gets-wrong-id", [(P, '        log.info("Ended %s", self._task_name(task_id))\n        await execute_optional(custom_callback, args=(task_id,))', '        log.info("Ended %s", self._task_name(task_id))\n        await execute_optional(custom_callback, args=(self._num_started,))')], {"C03": "viol"})
v("12e-simple-pool-callbacks-swapped", [(P, "        self._end_callback: EndCB | None = end_callback\n        self._cancel_callback: CancelCB | None = cancel_callback\n", "        self._end_callback: EndCB | None = cancel_callback\n        self._cancel_callback: CancelCB | None = end_callback\n")], {"C03": "R03.5"})
v("12f-apply-callbacks-swapped", [(P, """                    num,
                    end_callback=end_callback,
                    cancel_callback=cancel_callback,
                )
            )
        )
        return group_name""", """                    num,
                    end_callback=cancel_callback,
                    cancel_callback=end_callback,
                )
            )
        )
        return group_name""")], {"C03": "R03.5"})
v("12g-flush-clears-running", [(P, "        for task_id in finished:\n            self._tasks_ended.pop(task_id, None)\n", "        self._tasks_running.clear()\n        for task_id in finished:\n            self._tasks_ended.pop(task_id, None)\n")], {"C03": "R03.1", "C02": "viol"})
v("41-flush-clear-after-gather", [(P, "        for task_id in finished:\n            self._tasks_ended.pop(task_id, None)\n            self._tasks_cancelled.pop(task_id, None)\n", "        self._tasks_ended.clear()\n        self._tasks_cancelled.clear()\n")], {"C02": "R13.1", "C03": "R13.1"})
v("41b-flush-pop-live-registry", [(P, "        for task_id in finished:\n", "        for task_id in list(self._tasks_ended) + list(self._tasks_cancelled):\n")], {"C02": "R13.1"})
v("P-flush-filter-done", [(P, "        for task_id in finished:\n            self._tasks_ended.pop(task_id, None)\n            self._tasks_cancelled.pop(task_id, None)\n", "        for task_id, task in list(self._tasks_ended.items()):\n            if task.done():\n                self._tasks_ended.pop(task_id, None)\n        for task_id, task in list(self._tasks_cancelled.items()):\n            if task.done():\n                del self._tasks_cancelled[task_id]\n")], {"C02": "ok", "C03": "ok"})
for _n in ("P2-rename-locals", "P3-log-lines", "P5-ending-if-instead-of-try", "P6-increment-after-create", "P12-extract-move-helper", "P13-wrapper-finally-as-handlers"):
    for _v in V:
        if _v["name"] == _n:
            _v["expect"].update({"C02": "ok", "C03": "ok"})
            _v["props"] = list(_v["expect"])

# ---------------------------------------------------------------- C04
v("13-ignore_lock-default-false", [(P, "        ignore_lock: bool = True,\n", "        ignore_lock: bool = False,\n")], {"C04": "R04.2"})
v("13b-start_num-passes-ignore_lock-false", [(P, "                    group_name=group_name,\n                    end_callback=self._end_callback,", "                    group_name=group_name,\n                    ignore_lock=False,\n                    end_callback=self._end_callback,")], {"C04": "R04.2"})
v("14-func-without-kwargs", [(P, "                coroutine = func(*args, **kwargs)\n", "                coroutine = func(*args)\n")], {"C04": "R04.1s"})
v("15-apply-args-kwargs-swapped", [(P, "                    func,\n                    args,\n                    kwargs,\n                    num,\n", "                    func,\n                    kwargs,\n                    args,\n                    num,\n")], {"C04": "R04.3w"})
v("15b-range-num-minus-1", [(P, "        if kwargs is None:\n            kwargs = {}\n        for i in range(num):", "        if kwargs is None:\n            kwargs = {}\n        for i in range(num - 1):")], {"C04": "R04.1s"})
v("15c-break-after-first-failure", [(P, """                    repr(args),
                    repr(kwargs),
                )
                # TODO: Consider returning instead of continuing
                # https://github.com/daniil-berg/asyncio-taskpool/issues/5
                continue""", """                    repr(args),
                    repr(kwargs),
                )
                break""")], {"C04": "R04.1"})
v("15d-second-func-call", [(P, "                coroutine = func(*args, **kwargs)\n", "                coroutine = func(*args, **kwargs)\n                coroutine.close()\n                coroutine = func(*args, **kwargs)\n")], {"C04": "R04.1"})
v("15e-handler-narrowed", [(P, "                coroutine = func(*args, **kwargs)\n            except Exception as e:", "                coroutine = func(*args, **kwargs)\n            except TypeError as e:")], {"C04": "R04.1"})
v("15f-start-two-spawners", [(P, "        meta_tasks.add(create_task(self._start_num(num, group_name)))\n", "        meta_tasks.add(create_task(self._start_num(num, group_name)))\n        if num > 10:\n            meta_tasks.add(create_task(self._start_num(num, group_name)))\n")], {"C04": "R04.3"})
v("15g-spawner-not-registered", [(P, "        meta_tasks.add(create_task(self._start_num(num, group_name)))\n", "        create_task(self._start_num(num, group_name))\n")], {"C04": "R04.3"})
v("24-return-to-continue-in-cancel-handler", [(P, """                    i,
                    num,
                )
                coroutine.close()
                return

    def apply(""", """                    i,
                    num,
                )
                coroutine.close()
                continue

    def apply(""")], {"C04": "R04.1"})
v("P8-return-to-break", [(P, """                    i,
                    num,
                )
                coroutine.close()
                return

    def apply(""", """                    i,
                    num,
                )
                coroutine.close()
                break

    def apply(""")], {"C04": "ok", "C01": "ok", "C02": "ok"})
v("P-drop-coroutine-close", [(P, """                    i,
                    num,
                )
                coroutine.close()
                return

    def apply(""", """                    i,
                    num,
                )
                return

    def apply(""")], {"C04": "ok", "C01": "ok", "C02": "ok"})

# ---------------------------------------------------------------- C05
v("16-star-constants-swapped", [(P, "            args_iter,\n            1,\n", "            args_iter,\n            2,\n"), (P, "            kwargs_iter,\n            2,\n", "            kwargs_iter,\n            1,\n")], {"C05": "R05.1"})
v("16b-star_function-branches-swapped", [("internals/helpers.py", "    if arg_stars == 1:\n        return function(*arg)\n    if arg_stars == 2:  # noqa: PLR2004\n        return function(**arg)", "    if arg_stars == 2:  # noqa: PLR2004\n        return function(*arg)\n    if arg_stars == 1:\n        return function(**arg)")], {"C05": "R05.1"})
v("17-list-arg_iter", [(P, "        semaphore = Semaphore(num_concurrent)\n", "        arg_iter = list(arg_iter)\n        semaphore = Semaphore(num_concurrent)\n")], {"C05": "R05.2"})
v("18-semaphore-plus-one", [(P, "        semaphore = Semaphore(num_concurrent)\n", "        semaphore = Semaphore(num_concurrent + 1)\n")], {"C05": "R05.3"})
v("19-start-before-acquire", [(P, """                semaphore_acquired = await semaphore.acquire()
                await self._start_task(
                    coroutine,
                    group_name=group_name,
                    ignore_lock=True,
                    end_callback=release_cb,
                    cancel_callback=cancel_callback,
                )
""", """                await self._start_task(
                    coroutine,
                    group_name=group_name,
                    ignore_lock=True,
                    end_callback=release_cb,
                    cancel_callback=cancel_callback,
                )
                semaphore_acquired = await semaphore.acquire()
""")], {"C05": "R05.2i"})
v("20-callback-before-release", [(P, "            map_semaphore.release()\n            await execute_optional(actual_end_callback, args=(task_id,))\n", "            await execute_optional(actual_end_callback, args=(task_id,))\n            map_semaphore.release()\n")], {"C05": "R05.4"})
v("21-consumer-handler-narrowed", [(P, "                coroutine = star_function(func, next_arg, arg_stars=arg_stars)\n            except Exception as e:", "                coroutine = star_function(func, next_arg, arg_stars=arg_stars)\n            except TypeError as e:")], {"C05": "R05.2i"})
v("21b-consumer-ignore_lock-dropped", [(P, "                    ignore_lock=True,\n", "                    ignore_lock=False,\n")], {"C05": "R05.6"})
v("21c-release-in-loop", [(P, "                    end_callback=release_cb,\n                    cancel_callback=cancel_callback,\n                )\n            except CancelledError:", "                    end_callback=release_cb,\n                    cancel_callback=cancel_callback,\n                )\n                semaphore.release()\n            except CancelledError:")], {"C05": "viol"})
v("21d-end-callback-not-wrapped", [(P, "                    end_callback=release_cb,\n", "                    end_callback=end_callback,\n")], {"C05": "R05.3"})
v("21e-prefetch-next", [(P, "        for i, next_arg in enumerate(arg_iter):\n", "        arg_iter = iter(arg_iter)\n        first = next(arg_iter, None)\n        for i, next_arg in enumerate(arg_iter):\n")], {"C05": "R05.2"})
v("21f-semaphore-per-iteration", [(P, "            semaphore_acquired = False\n            try:\n                coroutine = star_function", "            semaphore_acquired = False\n            semaphore = Semaphore(num_concurrent)\n            try:\n                coroutine = star_function")], {"C05": "viol"})
v("21g-map-semaphore-wrong-arg", [(P, "            semaphore, actual_end_callback=end_callback\n", "            self._enough_room, actual_end_callback=end_callback\n")], {"C05": "viol"})
v("P9-drop-semaphore-release-in-handler", [(P, "                coroutine.close()\n                if semaphore_acquired:\n                    semaphore.release()\n                return", "                coroutine.close()\n                return")], {"C05": "ok", "C02": "ok"})

# ---------------------------------------------------------------- C06 / C07
v("22-cancel-fused-loop", [(P, """        tasks = [self._get_running_task(task_id) for task_id in task_ids]
        kw = self._get_cancel_kw(msg)
        for task in tasks:
            task.cancel(**kw)
""", """        kw = self._get_cancel_kw(msg)
        for task_id in task_ids:
            self._get_running_task(task_id).cancel(**kw)
""")], {"C06": "R06.1"})
v("23-lookup-exceptions-swapped", [(P, """            if self._tasks_cancelled.get(task_id):
                raise AlreadyCancelled(self._task_name(task_id)) from None
            if self._tasks_ended.get(task_id):
                raise AlreadyEnded(self._task_name(task_id)) from None""", """            if self._tasks_cancelled.get(task_id):
                raise AlreadyEnded(self._task_name(task_id)) from None
            if self._tasks_ended.get(task_id):
                raise AlreadyCancelled(self._task_name(task_id)) from None""")], {"C06": "R06.2"})
v("23b-cancel-from-cancelled-registry", [(P, "        try:\n            return self._tasks_running[task_id]\n        except KeyError:\n            if self._tasks_cancelled.get(task_id):\n                raise AlreadyCancelled", "        try:\n            return self._tasks_running[task_id]\n        except KeyError:\n            if self._tasks_cancelled.get(task_id):\n                return self._tasks_cancelled[task_id]\n            if self._tasks_cancelled.get(task_id):\n                raise AlreadyCancelled")], {"C06": "R06.2"})
v("23c-cancel-skips-done-tasks", [(P, "        for task in tasks:\n            task.cancel(**kw)\n", "        for task in tasks:\n            if task.done():\n                continue\n            task.cancel(**kw)\n")], {"C06": "R06.3"})
v("23d-cancel-dedups-ids", [(P, "        tasks = [self._get_running_task(task_id) for task_id in task_ids]\n", "        tasks = [self._get_running_task(task_id) for task_id in task_ids if task_id >= 0]\n")], {"C06": "R06.3"})
v("23e-cancel-in-flush", [(P, "        for task_id in finished:\n            self._tasks_ended.pop(task_id, None)\n", "        for task in self._tasks_running.values():\n            task.cancel()\n        for task_id in finished:\n            self._tasks_ended.pop(task_id, None)\n")], {"C06": "R06.3"})
v("23f-warn-after-cancel-raises", [(P, "        for task in tasks:\n            task.cancel(**kw)\n", "        for task in tasks:\n            task.cancel(**kw)\n            if task.done():\n                raise AlreadyEnded(str(task))\n")], {"C06": "R06.1"})
v("P4-cancel-explicit-loop", [(P, "        tasks = [self._get_running_task(task_id) for task_id in task_ids]\n", "        tasks = []\n        for task_id in task_ids:\n            tasks.append(self._get_running_task(task_id))\n")], {"C06": "ok"})
v("P7-lookup-ended-before-cancelled", [(P, """            if self._tasks_cancelled.get(task_id):
                raise AlreadyCancelled(self._task_name(task_id)) from None
            if self._tasks_ended.get(task_id):
                raise AlreadyEnded(self._task_name(task_id)) from None""", """            if self._tasks_ended.get(task_id):
                raise AlreadyEnded(self._task_name(task_id)) from None
            if task_id in self._tasks_cancelled:
                raise AlreadyCancelled(self._task_name(task_id)) from None""")], {"C06": "ok"})
v("25-keyerror-break", [(P, "                self._tasks_running[group_reg.pop()].cancel(**cancel_kw)\n            except KeyError:\n                continue", "                self._tasks_running[group_reg.pop()].cancel(**cancel_kw)\n            except KeyError:\n                break")], {"C07": "R07.2"})
v("26-members-before-spawners", [(P, """        self._cancel_group_meta_tasks(group_name)
        while group_reg:
            try:
                self._tasks_running[group_reg.pop()].cancel(**cancel_kw)
            except KeyError:
                continue
""", """        while group_reg:
            try:
                self._tasks_running[group_reg.pop()].cancel(**cancel_kw)
            except KeyError:
                continue
        self._cancel_group_meta_tasks(group_name)
""")], {"C07": "R07.2"})
v("27-cancel_all-keeps-groups", [(P, "        while self._task_groups:\n            group_name, group_reg = self._task_groups.popitem()\n            self._cancel_and_remove_all_from_group(group_name, group_reg, **kw)", "        for group_name, group_reg in dict(self._task_groups).items():\n            self._cancel_and_remove_all_from_group(group_name, group_reg, **kw)")], {"C07": "R07.1"})
v("27b-cancel_group-cancels-before-validation", [(P, """        try:
            group_reg = self._task_groups.pop(group_name)
        except KeyError:
            raise TaskGroupNotFound(group_name) from None
        kw = self._get_cancel_kw(msg)""", """        self._cancel_group_meta_tasks(group_name)
        try:
            group_reg = self._task_groups.pop(group_name)
        except KeyError:
            raise TaskGroupNotFound(group_name) from None
        kw = self._get_cancel_kw(msg)""")], {"C07": "R07.1"})
v("27c-cancel_group-keeps-group", [(P, "            group_reg = self._task_groups.pop(group_name)\n        except KeyError:\n            raise TaskGroupNotFound", "            group_reg = self._task_groups[group_name]\n        except KeyError:\n            raise TaskGroupNotFound")], {"C07": "viol"})
v("27d-meta-tasks-not-remembered", [(P, "        self._meta_tasks_cancelled.update(meta_tasks)\n", "")], {"C07": "R07.2"})
v("27e-consumer-continue-after-cancel", [(P, "                coroutine.close()\n                if semaphore_acquired:\n                    semaphore.release()\n                return", "                coroutine.close()\n                if semaphore_acquired:\n                    semaphore.release()\n                continue")], {"C07": "R07.3", "C05": "viol"})
v("27f-only-first-meta-task-cancelled", [(P, "        for meta_task in meta_tasks:\n            meta_task.cancel()\n", "        for meta_task in meta_tasks:\n            meta_task.cancel()\n            break\n")], {"C07": "R07.2"})
v("27g-flush-forgets-groups", [(P, "        for task_id in finished:\n            self._tasks_ended.pop(task_id, None)\n", "        self._task_groups.clear()\n        for task_id in finished:\n            self._tasks_ended.pop(task_id, None)\n")], {"C07": "R07.6"})
v("P11-cancel_all-copy-then-clear", [(P, "        while self._task_groups:\n            group_name, group_reg = self._task_groups.popitem()\n            self._cancel_and_remove_all_from_group(group_name, group_reg, **kw)", "        for group_name, group_reg in list(self._task_groups.items()):\n            self._cancel_and_remove_all_from_group(group_name, group_reg, **kw)\n        self._task_groups.clear()")], {"C07": "ok"})

# ---------------------------------------------------------------- C08 / C09
GC_TAIL = """        await gather(
            *self._tasks_ended.values(),
            *self._tasks_cancelled.values(),
            *self._tasks_running.values(),
            return_exceptions=return_exceptions,
        )
        self._tasks_ended.clear()
        self._tasks_cancelled.clear()
        self._tasks_running.clear()
        self._closed.set()
"""
v("28-closed-set-before-second-gather", [(P, GC_TAIL, "        self._closed.set()\n" + GC_TAIL.replace("        self._closed.set()\n", ""))], {"C08": "R08.1"})
GAC_WAIT1 = "        await gather(*self._meta_tasks_cancelled, return_exceptions=True)\n"
GAC_COLL = """        # Collected only now: an overlapping `flush` may drop groups from the
        # dictionary during the wait above, which breaks an earlier iterator.
        not_cancelled_meta_tasks = (
            task
            for task_set in self._group_meta_tasks_running.values()
            for task in task_set
        )
"""
GAC_WAIT2 = """        await gather(
            *not_cancelled_meta_tasks,
            return_exceptions=return_exceptions,
        )
"""
v("29-spawner-wait-suppressed-again", [(P, GAC_WAIT1 + GAC_COLL + GAC_WAIT2, GAC_COLL + """        with suppress(CancelledError):
            await gather(
                *self._meta_tasks_cancelled,
                *not_cancelled_meta_tasks,
                return_exceptions=return_exceptions,
            )
""")], {"C08": "R08.2"})
v("29b-cancelled-spawners-gather-not-true", [(P, GAC_WAIT1 + GAC_COLL, GAC_WAIT1.replace("return_exceptions=True", "return_exceptions=return_exceptions") + GAC_COLL)], {"C08": "R08.2"})
v("30-running-left-out-of-gather", [(P, "            *self._tasks_cancelled.values(),\n            *self._tasks_running.values(),\n            return_exceptions=return_exceptions,", "            *self._tasks_cancelled.values(),\n            return_exceptions=return_exceptions,")], {"C08": "R08.1"})
v("30b-running-spawners-not-awaited", [(P, "        await gather(\n            *not_cancelled_meta_tasks,\n            return_exceptions=return_exceptions,\n        )\n", "")], {"C08": "R08.1"})
v("30c-lock-after-first-wait", [(P, "        self.lock()\n        # A meta task cancelled before it ever ran", "        # A meta task cancelled before it ever ran"), (P, "        self._meta_tasks_cancelled.clear()\n        self._group_meta_tasks_running.clear()\n", "        self.lock()\n        self._meta_tasks_cancelled.clear()\n        self._group_meta_tasks_running.clear()\n")], {"C08": "R08.1", "C03": "R03.11", "C02": "R02.11"})
v("30d-unlock-reopens-closed-pool", [(P, "        if self._locked:\n            self._locked = False\n", "        if self._locked:\n            self._locked = False\n            self._closed.clear()\n")], {"C08": "R08.1"})
v("30e-tasks-before-spawners", [(P, GAC_WAIT1 + GAC_COLL + GAC_WAIT2, ""),
   (P, "        self._tasks_ended.clear()\n        self._tasks_cancelled.clear()\n        self._tasks_running.clear()\n        self._closed.set()", GAC_WAIT1 + GAC_COLL + GAC_WAIT2 + "        self._tasks_ended.clear()\n        self._tasks_cancelled.clear()\n        self._tasks_running.clear()\n        self._closed.set()")], {"C08": "R08.1"})
v("30f-running-not-forgotten-on-close", [(P, "        self._tasks_cancelled.clear()\n        self._tasks_running.clear()\n        self._closed.set()", "        self._tasks_cancelled.clear()\n        self._closed.set()")], {"C08": "R08.1"})
v("31-locked-before-closed", [(P, "        if self._closed.is_set():\n            raise PoolIsClosed\n        if self._locked and not ignore_lock:\n            raise PoolIsLocked\n", "        if self._locked and not ignore_lock:\n            raise PoolIsLocked\n        if self._closed.is_set():\n            raise PoolIsClosed\n")], {"C09": "R09.2", "C08": "R08.3"})
v("32-apply-registers-before-check", [(P, "        self._check_start(function=func)\n        if group_name is None:\n            group_name = self._generate_group_name(\"apply\", func)\n        if group_name in self._task_groups:\n            raise TaskGroupAlreadyExists(group_name)\n        self._task_groups.setdefault(group_name, TaskGroupRegister())\n",
   "        if group_name is None:\n            group_name = self._generate_group_name(\"apply\", func)\n        if group_name in self._task_groups:\n            raise TaskGroupAlreadyExists(group_name)\n        self._task_groups.setdefault(group_name, TaskGroupRegister())\n        self._check_start(function=func)\n")], {"C09": "R09.1"})
v("33-start-calls-before-check", [(P, "        self._check_start(function=self._func)\n        group_name = f\"start-group-{self._start_calls}\"\n        self._start_calls += 1\n", "        group_name = f\"start-group-{self._start_calls}\"\n        self._start_calls += 1\n        self._check_start(function=self._func)\n")], {"C09": "R09.1"})
v("34-num_concurrent-check-dropped", [(P, "        if num_concurrent < 1:\n            raise ValueError(  # noqa: TRY003\n                \"`num_concurrent` must be a positive integer.\"\n            )\n", "")], {"C09": "R09.3"})
v("34b-num_concurrent-lt-zero", [(P, "        if num_concurrent < 1:\n", "        if num_concurrent < 0:\n")], {"C09": "R09.3"})
v("35-setter-write-before-check", [(P, "        if value < 0:\n            raise ValueError(\"Pool size can not be less than 0\")  # noqa: TRY003\n        self._enough_room._value = value\n", "        self._enough_room._value = value\n        if value < 0:\n            raise ValueError(\"Pool size can not be less than 0\")  # noqa: TRY003\n")], {"C09": "R09.1"})
v("35b-apply-ignores-lock", [(P, "        self._check_start(function=func)\n        if group_name is None:\n            group_name = self._generate_group_name(\"apply\", func)", "        self._check_start(function=func, ignore_lock=True)\n        if group_name is None:\n            group_name = self._generate_group_name(\"apply\", func)")], {"C09": "R09.3"})
v("35c-map-group-registered-before-dup-check", [(P, "        if group_name in self._task_groups:\n            raise TaskGroupAlreadyExists(group_name)\n        self._task_groups[group_name] = TaskGroupRegister()\n", "        existing = group_name in self._task_groups\n        self._task_groups[group_name] = TaskGroupRegister()\n        if existing:\n            raise TaskGroupAlreadyExists(group_name)\n")], {"C09": "viol"})
v("35d-unlock-only-when-not-full", [(P, "        if self._locked:\n            self._locked = False\n", "        if self._locked and not self.is_full:\n            self._locked = False\n")], {"C09": "R09.4"})
v("35e-lock-toggles", [(P, "        if not self._locked:\n            self._locked = True\n            log.info(\"%s is locked!\", str(self))\n", "        self._locked = not self._locked\n")], {"C09": "R09.4"})
v("35f-simple-init-stores-before-check", [(P, "        if not iscoroutinefunction(func):\n            raise NotCoroutineFunction(func)\n        self._func: AnyCoroutineFunc = func\n", "        self._func: AnyCoroutineFunc = func\n        if not iscoroutinefunction(func):\n            raise NotCoroutineFunction(func)\n")], {"C09": "R09.1i"})
v("35g-map-touches-iter-early", [(P, "        self._check_start(function=func)\n        if num_concurrent < 1:", "        arg_iter = iter(arg_iter)\n        self._check_start(function=func)\n        if num_concurrent < 1:")], {"C09": "R09.1", "C05": "R05.2"})
v("P-lock-unconditional-store", [(P, "        if not self._locked:\n            self._locked = True\n            log.info(\"%s is locked!\", str(self))\n", "        self._locked = True\n")], {"C09": "ok", "C08": "ok"})

# ---------------------------------------------------------------- C10 / C11
v("36-generate-name-without-membership-test", [(P, "            name = f\"{base_name}-{i}\"\n            if name not in self._task_groups:\n                return name\n            i += 1", "            name = f\"{base_name}-{i}\"\n            return name")], {"C10": "R10.3"})
v("36b-generate-name-template-changed", [(P, "        base_name = f\"{prefix}-{coroutine_function.__name__}-group\"", "        base_name = f\"{prefix}_{coroutine_function.__name__}-group\"")], {"C10": "R10.3"})
v("36c-generate-name-checks-wrong-table", [(P, "            if name not in self._task_groups:\n                return name", "            if name not in self._group_meta_tasks_running:\n                return name")], {"C10": "R10.3"})
v("37-map-returns-other-name", [(P, "            0,\n            end_callback=end_callback,\n            cancel_callback=cancel_callback,\n        )\n        return group_name", "            0,\n            end_callback=end_callback,\n            cancel_callback=cancel_callback,\n        )\n        return f\"map-{group_name}\"")], {"C10": "any"})
v("37b-apply-returns-other-name", [(P, "                    cancel_callback=cancel_callback,\n                )\n            )\n        )\n        return group_name\n\n    @staticmethod", "                    cancel_callback=cancel_callback,\n                )\n            )\n        )\n        return str(func.__name__)\n\n    @staticmethod")], {"C10": "R10.2r"})
v("37c-start_task-default-group", [(P, "        group_reg = self._task_groups.setdefault(\n            group_name, TaskGroupRegister()\n        )", "        group_reg = self._task_groups.setdefault(\n            DEFAULT_TASK_GROUP, TaskGroupRegister()\n        )")], {"C10": "R10.1"})
v("37d-spawner-passes-no-group", [(P, "                await self._start_task(\n                    coroutine,\n                    group_name=group_name,\n                    end_callback=end_callback,", "                await self._start_task(\n                    coroutine,\n                    end_callback=end_callback,")], {"C10": "R10.2s", "C04": "R04.1s"})
v("37e-start-counter-not-incremented", [(P, "        self._start_calls += 1\n", "")], {"C10": "R10.3"})
v("37f-get_group_ids-returns-register", [(P, "        ids: Set[int] = set()\n        for name in group_names:\n            try:\n                ids.update(self._task_groups[name])", "        ids: Set[int] = set()\n        for name in group_names:\n            try:\n                ids = self._task_groups[name]")], {"C10": "any"})
v("37g-task-added-to-two-registers", [(P, "            group_reg.add(task_id)\n", "            group_reg.add(task_id)\n            self._task_groups.setdefault(DEFAULT_TASK_GROUP, TaskGroupRegister()).add(task_id)\n")], {"C10": "R10.1"})
v("37h-ended-task-leaves-register", [(P, "        self._enough_room.release()\n        log.info(\"Ended", "        for reg in self._task_groups.values():\n            reg.discard(task_id)\n        self._enough_room.release()\n        log.info(\"Ended")], {"C10": "viol"})
v("38-flush-resets-num_started", [(P, "        for task_id in finished:\n            self._tasks_ended.pop(task_id, None)\n", "        self._num_started = 0\n        for task_id in finished:\n            self._tasks_ended.pop(task_id, None)\n")], {"C11": "R11.1"})
v("39-task-named-after-increment", [(P, "                name=self._task_name(task_id),\n", "                name=self._task_name(self._num_started),\n")], {"C11": "R11.1"})
v("39b-id-after-increment", [(P, "            task_id = self._num_started\n            self._num_started += 1\n", "            self._num_started += 1\n            task_id = self._num_started\n")], {"C11": "R11.1"})
v("39c-increment-before-acquire", [(P, ACQ, "        self._num_started += 1\n" + ACQ), (P, "            task_id = self._num_started\n            self._num_started += 1\n", "            task_id = self._num_started - 1\n")], {"C11": "R11.1"})
v("39d-task-name-format", [(P, '        return f"{self}_Task-{task_id}"', '        return f"{self}-Task-{task_id}"')], {"C11": "R11.2"})
v("39e-str-ignores-name", [(P, 'return f"{self.__class__.__name__}-{self._name or self._idx}"', 'return f"{self.__class__.__name__}-{self._idx}"')], {"C11": "R11.2"})
v("39f-num_started-class-level", [(P, "    _pools: ClassVar[List[BaseTaskPool]] = []\n", "    _pools: ClassVar[List[BaseTaskPool]] = []\n    _num_started: int = 0\n"), (P, "        self._num_started: int = 0  # total number of tasks started\n", "")], {"C11": "viol"})
v("39g-add_pool-returns-len", [(P, "        return len(cls._pools) - 1\n", "        return len(cls._pools)\n")], {"C11": "any"})
v("39h-wrapper-gets-other-id", [(P, "                    awaitable, task_id, end_callback, cancel_callback\n", "                    awaitable, self._num_started, end_callback, cancel_callback\n")], {"C11": "R11.1"})
v("P10-generate-name-percent-format", [(P, "        base_name = f\"{prefix}-{coroutine_function.__name__}-group\"", "        base_name = \"%s-%s-group\" % (prefix, coroutine_function.__name__)"), (P, "            name = f\"{base_name}-{i}\"\n", "            name = \"%s-%d\" % (base_name, i)\n")], {"C10": "ok"})
for _v in V:
    if _v["name"] in ("P2-rename-locals", "P6-increment-after-create"):
        _v["expect"].update({"C10": "ok", "C11": "ok"})
        _v["props"] = list(_v["expect"])

# ---------------------------------------------------------------- C12 / C13 / C14 / C15
v("12-return-in-finally", [(P, "        finally:\n            await self._task_ending(task_id, custom_callback=end_callback)\n", "        finally:\n            await self._task_ending(task_id, custom_callback=end_callback)\n            return None\n")], {"C12": "R12.2"})
v("12h-wrapper-catches-exception", [(P, WRAP_OLD, WRAP_OLD.replace("        finally:", "        except Exception as e:\n            log.exception(str(e))\n            return None\n        finally:"))], {"C12": "R12.2"})
v("12i-ending-raises-own-error", [(P, "        self._enough_room.release()\n        log.info(\"Ended", "        self._enough_room.release()\n        if task_id < 0:\n            raise RuntimeError(task_id)\n        log.info(\"Ended")], {"C12": "R12.5"})
v("12j-callback-before-release", [(P, "        self._enough_room.release()\n        log.info(\"Ended %s\", self._task_name(task_id))\n        await execute_optional(custom_callback, args=(task_id,))", "        log.info(\"Ended %s\", self._task_name(task_id))\n        await execute_optional(custom_callback, args=(task_id,))\n        self._enough_room.release()")], {"C12": "R12.1", "C02": "viol", "C01": "viol"})
v("40-flush-return_exceptions-false", [(P, "        await gather(\n            *finished.values(),\n            return_exceptions=return_exceptions,\n        )", "        await gather(\n            *finished.values(),\n            return_exceptions=False,\n        )")], {"C12": "R12.4", "C13": "R13.3"})
v("40b-gather_and_close-drops-return_exceptions", [(P, "            *self._tasks_running.values(),\n            return_exceptions=return_exceptions,\n        )", "            *self._tasks_running.values(),\n        )")], {"C12": "R12.4"})
v("40c-execute_optional-swallows", [("internals/helpers.py", "    if iscoroutinefunction(function):\n        return await cast(Awaitable[_R], function(*args, **kwargs))\n    return cast(_R, function(*args, **kwargs))", "    try:\n        if iscoroutinefunction(function):\n            return await cast(Awaitable[_R], function(*args, **kwargs))\n        return cast(_R, function(*args, **kwargs))\n    except Exception:\n        return None")], {"C12": "R12.2"})
v("42-flush-also-cancels-running", [(P, "        for task_id in finished:\n            self._tasks_ended.pop(task_id, None)\n", "        for task in list(self._tasks_running.values()):\n            task.cancel()\n        for task_id in finished:\n            self._tasks_ended.pop(task_id, None)\n")], {"C13": "R13.2"})
v("42b-flush-forgets-only-ended", [(P, "            self._tasks_ended.pop(task_id, None)\n            self._tasks_cancelled.pop(task_id, None)\n", "            self._tasks_ended.pop(task_id, None)\n")], {"C13": "R13.5"})
v("42c-flush-snapshot-after-gather", [(P, "        finished = {**self._tasks_ended, **self._tasks_cancelled}\n        await gather(\n            *finished.values(),\n            return_exceptions=return_exceptions,\n        )\n", "        await gather(\n            *self._tasks_ended.values(),\n            *self._tasks_cancelled.values(),\n            return_exceptions=return_exceptions,\n        )\n        finished = {**self._tasks_ended, **self._tasks_cancelled}\n")], {"C13": "R13.1"})
v("42d-flush-early-return-when-locked", [(P, "        self._meta_tasks_cancelled.clear()\n        # Only the tasks gathered here", "        self._meta_tasks_cancelled.clear()\n        if self._locked:\n            return\n        # Only the tasks gathered here")], {"C13": "R13.5"})
v("43-stop-without-reversed", [(P, "        for i, task_id in enumerate(reversed(self._tasks_running)):", "        for i, task_id in enumerate(self._tasks_running):")], {"C14": "R14.1"})
v("44-stop-append-before-bound", [(P, "            if i >= num:\n                # We got the desired number of task IDs,\n                # there may well be more tasks left to keep running\n                break\n            ids.append(task_id)\n", "            ids.append(task_id)\n            if i >= num:\n                break\n")], {"C14": "R14.1"})
v("44b-stop-bound-gt", [(P, "            if i >= num:\n", "            if i > num:\n")], {"C14": "R14.1"})
v("44c-stop-returns-sorted", [(P, "        self.cancel(*ids)\n        return ids\n", "        self.cancel(*ids)\n        return sorted(ids)\n")], {"C14": "R14.1"})
v("44d-stop_all-fixed-number", [(P, "        return self.stop(self.num_running)\n", "        return self.stop(self._num_started)\n")], {"C14": "any"})
v("44e-stop-cancels-individually", [(P, "        self.cancel(*ids)\n        return ids\n", "        for task_id in ids:\n            self.cancel(task_id)\n        return ids\n")], {"C14": "R14.1"})
v("P-stop-islice", [(P, """        ids = []
        for i, task_id in enumerate(reversed(self._tasks_running)):
            if i >= num:
                # We got the desired number of task IDs,
                # there may well be more tasks left to keep running
                break
            ids.append(task_id)
""", """        ids = list(reversed(self._tasks_running))[: max(num, 0)]
""")], {"C14": "ok"})
v("45-setter-validation-dropped", [(P, "        if value < 0:\n            raise ValueError(\"Pool size can not be less than 0\")  # noqa: TRY003\n", "")], {"C15": "viol", "C09": "R09.3"})
v("45b-getter-returns-running-count", [(P, "        return self._enough_room._value\n", "        return len(self._tasks_running)\n")], {"C15": "viol"})
v("45c-setter-le-zero", [(P, "        if value < 0:\n", "        if value <= 0:\n")], {"C15": "viol"})
v("P-pool-size-fixed", [(P, "        return self._enough_room._value\n", "        return self._pool_size\n"),
   (P, "        self._enough_room._value = value\n", "        delta = value - getattr(self, '_pool_size', 0)\n        self._pool_size = value\n        self._enough_room._value += delta\n        self._enough_room._wake_up_next()\n")], {"C15": "any"})

# ---------------------------------------------------------------- C20
Q = "queue_context.py"
v("56-aexit-only-on-success", [(Q, "        self.item_processed()\n", "        if exc_type is None:\n            self.item_processed()\n")], {"C20": "R20.2"})
v("57-aexit-returns-true", [(Q, "        self.item_processed()\n", "        self.item_processed()\n        return True\n")], {"C20": "R20.2"})
v("58-aenter-finally-marks", [(Q, "        return await self.get()\n", "        try:\n            return await self.get()\n        finally:\n            self.item_processed()\n")], {"C20": "R20.1"})
v("59-task_done-twice", [(Q, "        self.task_done()\n", "        self.task_done()\n        self.task_done()\n")], {"C20": "viol"})
v("59b-aexit-sleeps-first", [(Q, "        self.item_processed()\n", "        await self.join() if False else None\n        await self.put(None) if exc_type is KeyError else None\n        self.item_processed()\n")], {"C20": "R20.2"})
v("59c-aenter-marks-on-cancel", [(Q, "        return await self.get()\n", "        try:\n            return await self.get()\n        except BaseException:\n            self.task_done()\n            raise\n")], {"C20": "R20.1"})
v("59d-aexit-skips-on-cancellation", [(Q, "        self.item_processed()\n", "        from asyncio import CancelledError\n        if exc_type is not None and issubclass(exc_type, CancelledError):\n            return\n        self.item_processed()\n")], {"C20": "R20.2"})
v("P16-aexit-try-finally", [(Q, "        self.item_processed()\n", "        try:\n            pass\n        finally:\n            self.item_processed()\n")], {"C20": "ok"})

# ---------------------------------------------------------------- C19
SV = "control/server.py"
SE = "control/session.py"
CLI = "control/client.py"
v("53-final-callback-only-on-cancel", [(SV, "        except CancelledError:\n            log.debug(\"%s stopped\", self.__class__.__name__)\n        finally:\n            self._final_callback()\n", "        except CancelledError:\n            log.debug(\"%s stopped\", self.__class__.__name__)\n            self._final_callback()\n")], {"C19": "R19.2"})
v("54-writer-close-removed", [(SV, "        try:\n            await session.client_handshake()\n            await session.listen()\n        finally:\n            writer.close()\n", "        await session.client_handshake()\n        await session.listen()\n")], {"C19": "R19.4"})
v("54b-writer-close-only-on-success", [(SV, "        try:\n            await session.client_handshake()\n            await session.listen()\n        finally:\n            writer.close()\n", "        await session.client_handshake()\n        await session.listen()\n        writer.close()\n")], {"C19": "R19.4"})
v("55-unlink-other-path", [(SV, "        self._socket_path.unlink()\n", "        Path(str(self._socket_path) + '.lock').unlink()\n")], {"C19": "R19.3"})
v("55b-cancel-reraised", [(SV, "        except CancelledError:\n            log.debug(\"%s stopped\", self.__class__.__name__)\n", "        except CancelledError:\n            log.debug(\"%s stopped\", self.__class__.__name__)\n            raise\n")], {"C19": "R19.2"})
v("55c-serve_forever-awaits-serving", [(SV, "        return create_task(self._serve_forever())\n", "        task = create_task(self._serve_forever())\n        await task\n        return task\n")], {"C19": "R19.1"})
v("55d-listen-ignores-eof", [(SE, "            if not msg:\n                log.debug(\"%s disconnected\", self._client_class_name)\n                break\n", "            if not msg:\n                log.debug(\"%s disconnected\", self._client_class_name)\n                continue\n")], {"C19": "R19.5"})
v("55e-listen-while-true", [(SE, "        while self._control_server.is_serving():\n", "        while True:\n")], {"C19": "R19.5"})
v("55f-client-exit-keeps-connected", [(CLI, "            writer.close()\n            self._connected = False\n            return None\n", "            writer.close()\n            return None\n")], {"C19": "R19.6"})
v("55g-unlink-only-if-serving", [(SV, "        self._socket_path.unlink()\n", "        if self.is_serving():\n            self._socket_path.unlink()\n")], {"C19": "R19.3"})
v("55h-listen-before-handshake", [(SV, "            await session.client_handshake()\n            await session.listen()\n", "            await session.listen()\n")], {"C19": "R19.4"})
v("P14-unlink-missing-ok", [(SV, "        self._socket_path.unlink()\n", "        self._socket_path.unlink(missing_ok=True)\n")], {"C19": "ok"})
v("P-close-in-session", [(SV, "        try:\n            await session.client_handshake()\n            await session.listen()\n        finally:\n            writer.close()\n", "        try:\n            await session.client_handshake()\n            await session.listen()\n        finally:\n            session.close()\n"),
   (SE, "    async def _parse_command(self, msg: str) -> None:\n", "    def close(self) -> None:\n        self._writer.close()\n\n    async def _parse_command(self, msg: str) -> None:\n")], {"C19": "ok"})

# ---------------------------------------------------------------- spawner registries (C04/C07/C08)
POP_OLD = """        obsolete_keys, ended_meta_tasks = [], set()
        for group_name in self._group_meta_tasks_running:
            still_running = set()
            while self._group_meta_tasks_running[group_name]:
                meta_task = self._group_meta_tasks_running[group_name].pop()
                if meta_task.done():
                    ended_meta_tasks.add(meta_task)
                else:
                    still_running.add(meta_task)
            if still_running:
                self._group_meta_tasks_running[group_name] = still_running
            else:
                obsolete_keys.append(group_name)
        # If a group no longer has running meta tasks associated with,
        # we can remove its name from the dictionary.
        for group_name in obsolete_keys:
            del self._group_meta_tasks_running[group_name]
        return ended_meta_tasks
"""
v("60-pop-ended-drops-running", [(P, "                else:\n                    still_running.add(meta_task)\n            if still_running:", "            if still_running:")], {"C04": "R04.6", "C08": "R08.5"})
v("60b-pop-ended-deletes-all-groups", [(P, "            else:\n                obsolete_keys.append(group_name)\n", "            obsolete_keys.append(group_name)\n")], {"C04": "R04.6"})
v("60c-pop-ended-rewrite-forgets-untouched-groups", [(P, POP_OLD, """        ended_meta_tasks: Set[Task[Any]] = set()
        still_running: Dict[str, Set[Task[Any]]] = {}
        for group_name, meta_tasks in self._group_meta_tasks_running.items():
            done = {task for task in meta_tasks if task.done()}
            if not done:
                continue  # nothing to collect from this group
            ended_meta_tasks |= done
            if len(done) < len(meta_tasks):
                still_running[group_name] = meta_tasks - done
        self._group_meta_tasks_running = still_running
        return ended_meta_tasks
""")], {"C04": "R04.6", "C07": "R07.8"})
v("60d-spawner-forgets-itself", [(P, "                coroutine.close()\n                return\n\n    def apply(", "                coroutine.close()\n                break\n        self._group_meta_tasks_running.pop(group_name, None)\n\n    def apply(")], {"C04": "R04.5", "C07": "R07.7", "C08": "R08.4"})
v("60e-pop-ended-returns-running-too", [(P, "                else:\n                    still_running.add(meta_task)\n", "                else:\n                    still_running.add(meta_task)\n                    ended_meta_tasks.add(meta_task)\n")], {"C08": "R08.5"})
v("P-pop-ended-rewrite-correct", [(P, POP_OLD, """        ended_meta_tasks: Set[Task[Any]] = set()
        still_running: Dict[str, Set[Task[Any]]] = {}
        for group_name, meta_tasks in self._group_meta_tasks_running.items():
            done = {task for task in meta_tasks if task.done()}
            ended_meta_tasks |= done
            if len(done) < len(meta_tasks):
                still_running[group_name] = meta_tasks - done
        self._group_meta_tasks_running = still_running
        return ended_meta_tasks
""")], {"C04": "ok", "C07": "ok", "C08": "ok"})
v("P-pop-ended-comprehensions", [(P, POP_OLD, """        ended_meta_tasks = {t for ts in self._group_meta_tasks_running.values() for t in ts if t.done()}
        self._group_meta_tasks_running = {
            g: {t for t in ts if not t.done()}
            for g, ts in self._group_meta_tasks_running.items()
            if {t for t in ts if not t.done()}
        }
        return ended_meta_tasks
""")], {"C04": "ok", "C08": "ok"})

# ---------------------------------------------------------------- C16 / C17 / C18
PA = "control/parser.py"
v("45-public_only-default-false", [(PA, "        public_only: bool = True,  # noqa: FBT001, FBT002\n", "        public_only: bool = False,  # noqa: FBT001, FBT002\n")], {"C16": "R16.2"})
v("45b-handshake-uses-base-class", [(SE, "        self._parser.add_class_commands(self._pool.__class__)\n", "        from ..pool import BaseTaskPool\n        self._parser.add_class_commands(BaseTaskPool)\n")], {"C16": "R16.1"})
v("45c-handshake-reply-before-parser", [(SE, "        self._parser.add_class_commands(self._pool.__class__)\n        self._writer.write(str(self._pool).encode() + b\"\\n\")\n        await self._writer.drain()\n", "        self._writer.write(str(self._pool).encode() + b\"\\n\")\n        await self._writer.drain()\n        self._parser.add_class_commands(self._pool.__class__)\n")], {"C16": "R16.1"})
v("45d-command-name-keeps-underscores", [(PA, '        subparser_kwargs.setdefault("name", function.__name__.replace("_", "-"))\n', '        subparser_kwargs.setdefault("name", function.__name__)\n')], {"C16": "R16.2"})
v("45e-properties-skipped", [(PA, "            elif isinstance(member, property):\n                subparser = self.add_property_command(\n                    member, cls.__name__, **common_kwargs\n                )\n            else:\n                continue", "            else:\n                continue")], {"C16": "R16.2"})
v("45f-member-stored-under-other-key", [(PA, "        member_arg_name: str = CMD,\n", '        member_arg_name: str = "cmd",\n')], {"C16": "R16.2"})
v("46-var-pos-before-normal", [(SE, "            method, *normal_pos, *var_pos, **kwargs\n", "            method, *var_pos, *normal_pos, **kwargs\n")], {"C17": "R17.1"})
v("47-setter-result-dropped", [(SE, """            output = await return_or_exception(prop.fset, self._pool, **kwargs)  # type: ignore[call-arg]
            self._response_buffer.write(
                CMD_OK.decode() if output is None else str(output)
            )
""", """            await return_or_exception(prop.fset, self._pool, **kwargs)  # type: ignore[call-arg]
            self._response_buffer.write(CMD_OK.decode())
""")], {"C17": "R17.1r"})
v("47b-method-reply-always-ok", [(SE, "            CMD_OK.decode() if output is None else str(output)\n        )\n\n    async def _exec_property_and_respond(", "            CMD_OK.decode()\n        )\n\n    async def _exec_property_and_respond(")], {"C17": "R17.1r"})
v("47c-return_or_exception-not-awaited", [("internals/helpers.py", "            return await cast(\n                Awaitable[_R], _function_to_execute(*args, **kwargs)\n            )", "            return cast(\n                Awaitable[_R], _function_to_execute(*args, **kwargs)\n            )")], {"C17": "R17.4"})
v("47d-return_or_exception-catches-valueerror-only", [("internals/helpers.py", "    except Exception as e:\n        return e\n", "    except ValueError as e:\n        return e\n")], {"C17": "R17.4", "C18": "R18.3"})
v("47e-keyword-only-popped-positionally", [(SE, "                param.POSITIONAL_ONLY,\n            ):", "                param.POSITIONAL_ONLY,\n                param.KEYWORD_ONLY,\n            ):")], {"C17": "R17.1"})
v("47f-flag-default-from-parameter", [(PA, '                kwargs.setdefault("action", "store_true")\n', '                kwargs.setdefault("action", "store_false")\n')], {"C17": "R17.3"})
v("47g-option-default-dropped", [(PA, '                kwargs.setdefault("default", parameter.default)\n', '                pass\n')], {"C17": "R17.3"})
v("47h-pool-flag-default-true", [(P, "    async def flush(\n        self,\n        return_exceptions: bool = False,", "    async def flush(\n        self,\n        return_exceptions: bool = True,")], {"C17": "R17.3"})
v("48-print_message-prints", [(PA, "        if message:\n            self._stream.write(message)\n", "        if message:\n            print(message)\n")], {"C18": "R18.1"})
v("49-exit-override-deleted", [(PA, """    def exit(self, status: int = 0, message: str | None = None) -> None:  # type: ignore[override]  # noqa: ARG002
        \"\"\"Overridden to prevent system exit to be invoked.\"\"\"
        if message:
            self._print_message(message)

""", "")], {"C18": "R18.1"})
v("50-type-wrapper-reraises-everything", [(PA, """        except Exception as e:
            text = (
                f"{e.__class__.__name__} occurred in parser trying to "
                f"convert type: {cls.__name__}({arg!r})"
            )
            log.exception(text)
            raise ArgumentTypeError(text) from e  # propagate to the client
""", "")], {"C18": "R18.3"})
v("51-response-buffer-class-attribute", [(SE, "        self._response_buffer: StringIO = StringIO()\n", ""), (SE, "class ControlSession:\n", "class ControlSession:\n    _response_buffer: StringIO = StringIO()\n")], {"C18": "R18.4"})
v("52-seek-dropped", [(SE, "            self._response_buffer.seek(0)\n", "")], {"C18": "R18.4"})
v("52b-reply-skipped-for-empty-response", [(SE, "            self._writer.write(response.encode())\n            await self._writer.drain()\n", "            if response.strip():\n                self._writer.write(response.encode())\n                await self._writer.drain()\n")], {"C18": "R18.2"})
v("52c-helprequested-not-caught", [(SE, "        except (HelpRequested, ParserError):\n", "        except ParserError:\n")], {"C18": "R18.3"})
v("52d-error-returns", [(PA, "        super().error(message=message)\n        raise ParserError\n", "        super().error(message=message)\n")], {"C18": "R18.1"})
v("52e-subparsers-lose-stream", [(PA, "        common_kwargs = CommandParserSpecialKwargs(\n            stream=self._stream,\n", "        import io\n        common_kwargs = CommandParserSpecialKwargs(\n            stream=io.StringIO(),\n")], {"C18": "R18.1"})
v("52f-session-calls-member-directly", [(SE, "            self._response_buffer.write(\n                str(await return_or_exception(prop.fget, self._pool))\n            )", "            self._response_buffer.write(\n                str(prop.fget(self._pool))\n            )")], {"C18": "R18.3", "C17": "viol"})
v("52g-buffer-truncate-before-getvalue", [(SE, "            response = self._response_buffer.getvalue() + \"\\n\"\n            self._response_buffer.seek(0)\n            self._response_buffer.truncate()\n", "            self._response_buffer.seek(0)\n            self._response_buffer.truncate()\n            response = self._response_buffer.getvalue() + \"\\n\"\n")], {"C18": "R18.4"})
v("52h-log-to-stderr", [(SE, "            await self._parse_command(msg)\n", "            await self._parse_command(msg)\n            import sys\n            sys.stderr.write(msg)\n")], {"C18": "R18.1"})
v("P15-truncate0-then-seek", [(SE, "            self._response_buffer.seek(0)\n            self._response_buffer.truncate()\n", "            self._response_buffer.truncate(0)\n            self._response_buffer.seek(0)\n")], {"C18": "ok"})
v("P-parse-command-log-lines", [(SE, "        command = kwargs.pop(CMD)\n", "        log.debug('parsed %s', kwargs)\n        command = kwargs.pop(CMD)\n")], {"C18": "ok", "C17": "ok", "C16": "ok"})

RESP_OLD = """        self._response_buffer.write(
            CMD_OK.decode() if output is None else str(output)
        )

    async def _exec_property_and_respond("""
v("P-respond-helper-correct", [(SE, RESP_OLD, "        self._respond(output)\n\n    async def _exec_property_and_respond("),
   (SE, "    async def _exec_method_and_respond(\n", "    def _respond(self, output: Any) -> None:\n        self._response_buffer.write(CMD_OK.decode() if output is None else str(output))\n\n    async def _exec_method_and_respond(\n")], {"C17": "ok", "C18": "ok"})
v("47i-respond-helper-falsy", [(SE, RESP_OLD, "        self._respond(output)\n\n    async def _exec_property_and_respond("),
   (SE, "    async def _exec_method_and_respond(\n", "    def _respond(self, output: Any) -> None:\n        self._response_buffer.write(str(output or CMD_OK.decode()))\n\n    async def _exec_method_and_respond(\n")], {"C17": "R17.1r"})

# ---------------------------------------------------------------- from the mutation sweep
v("M1-check-after-acquire", [(P, "        self._check_start(awaitable=awaitable, ignore_lock=ignore_lock)\n        await self._enough_room.acquire()\n", "        await self._enough_room.acquire()\n        self._check_start(awaitable=awaitable, ignore_lock=ignore_lock)\n")], {"C02": "R02.4w", "C01": "R01.3"})
v("M2-start_calls-not-initialised", [(P, "        self._start_calls: int = 0\n", "")], {"C10": "R10.3"})
v("P-start-task-releases-on-failure", [(P, ACQ, ACQ + "        try:\n            self._check_start(awaitable=awaitable, ignore_lock=ignore_lock)\n        except BaseException:\n            self._enough_room.release()\n            raise\n")], {"C01": "ok", "C02": "ok"})

v("M3-unix-server-start-function-not-stored", [(SV, "        self._start_unix_server = start_unix_server\n", "")], {"C19": "R19.3"})
v("M4-members-loop-breaks", [(PA, "            else:\n                continue\n            subparser.set_defaults", "            else:\n                break\n            subparser.set_defaults")], {"C16": "R16.2"})

FLUSH_BODY_START = "        # A cancelled meta task raises `CancelledError` when it is awaited; that\n        # is collected as a result here, because suppressing the exception\n        # around the `await` would also swallow a cancellation of the caller.\n        await gather(*self._meta_tasks_cancelled, return_exceptions=True)\n        await gather(\n            *self._pop_ended_meta_tasks(),"
v("P-flush-body-in-helper", [(P, FLUSH_BODY_START, "        await self._flush(return_exceptions)\n\n    async def _flush(self, return_exceptions: bool) -> None:\n" + FLUSH_BODY_START)],
  {"C13": "ok", "C02": "ok", "C03": "ok", "C12": "ok", "C05": "ok"})
v("42e-flush-skips-when-busy", [(P, FLUSH_BODY_START, "        if self._locked:\n            return\n        await self._flush(return_exceptions)\n\n    async def _flush(self, return_exceptions: bool) -> None:\n" + FLUSH_BODY_START)],
  {"C13": "R13.5"})

# ---------------------------------------------------------------- defects and refactorings routed through NEW helpers (spliced into their callers)
REG_BLOCK = """        async with group_reg:
            task_id = self._num_started
            self._num_started += 1
            group_reg.add(task_id)
            self._tasks_running[task_id] = create_task(
                coro=self._task_wrapper(
                    awaitable, task_id, end_callback, cancel_callback
                ),
                name=self._task_name(task_id),
            )
        return task_id

    def _get_running_task"""
REG_HELPER = """        async with group_reg:
            return self._file_new_task(awaitable, group_reg, end_callback, cancel_callback)

    def _file_new_task(self, awaitable, group_reg, end_callback, cancel_callback):
        task_id = self._num_started
        self._num_started += 1
        group_reg.add(task_id)
        self._tasks_running[task_id] = create_task(
            coro=self._task_wrapper(
                awaitable, task_id, end_callback, cancel_callback
            ),
            name=self._task_name(task_id),
        )
        return task_id

    def _get_running_task"""
v("H-P-file-task-helper", [(P, REG_BLOCK, REG_HELPER)], {"C01": "ok", "C02": "ok", "C03": "ok", "C10": "ok", "C11": "ok", "C15": "ok"})
v("H-helper-acquire-dropped", [(P, REG_BLOCK, REG_HELPER), (P, ACQ, "")], {"C01": "R01.1"})
v("H-helper-id-after-increment", [(P, REG_BLOCK, REG_HELPER.replace("        task_id = self._num_started\n        self._num_started += 1\n", "        self._num_started += 1\n        task_id = self._num_started\n"))],
  {"C11": "R11.1"})
v("H-helper-wrong-register", [(P, REG_BLOCK, REG_HELPER.replace("self._file_new_task(awaitable, group_reg,", "self._file_new_task(awaitable, TaskGroupRegister(),"))], {"C10": "R10.1"})
v("H-helper-release-in-new-helper", [(P, '        log.debug("Cancelled %s", self._task_name(task_id))\n', '        log.debug("Cancelled %s", self._task_name(task_id))\n        self._make_room()\n'),
                                      (P, "    def _get_running_task(self, task_id: int) -> Task[Any]:\n", "    def _make_room(self) -> None:\n        self._enough_room.release()\n\n    def _get_running_task(self, task_id: int) -> Task[Any]:\n")],
  {"C01": "R01.3"})
v("H-flush-forget-helper-clears", [(P, """        for task_id in finished:
            self._tasks_ended.pop(task_id, None)
            self._tasks_cancelled.pop(task_id, None)
""", """        self._forget(finished)
"""), (P, "    async def gather_and_close(\n", "    def _forget(self, finished) -> None:\n        self._tasks_ended.clear()\n        self._tasks_cancelled.clear()\n\n    async def gather_and_close(\n")],
  {"C13": "R13.1"})
v("H-P-flush-forget-helper", [(P, """        for task_id in finished:
            self._tasks_ended.pop(task_id, None)
            self._tasks_cancelled.pop(task_id, None)
""", """        self._forget(finished)
"""), (P, "    async def gather_and_close(\n", "    def _forget(self, finished) -> None:\n        for task_id in finished:\n            self._tasks_ended.pop(task_id, None)\n            self._tasks_cancelled.pop(task_id, None)\n\n    async def gather_and_close(\n")],
  {"C13": "ok", "C02": "ok", "C12": "ok"})

v("42f-flush-first-gather-not-awaited", [(P, "        await gather(*self._meta_tasks_cancelled, return_exceptions=True)\n        await gather(\n            *self._pop_ended_meta_tasks(),", "        gather(*self._meta_tasks_cancelled, return_exceptions=True)\n        await gather(\n            *self._pop_ended_meta_tasks(),")],
  {"C08": "R08.2"})

# ---- mechanisms added with refactoring batch 6: each has a passing twin (P-...) and broken siblings that must still be reported
APPLY_REG = """        if group_name in self._task_groups:
            raise TaskGroupAlreadyExists(group_name)
        self._task_groups.setdefault(group_name, TaskGroupRegister())
        meta_tasks = self._group_meta_tasks_running.setdefault(
            group_name, set()
        )
        meta_tasks.add(
            create_task(
                self._apply_spawner(
                    group_name,
                    func,
                    args,
                    kwargs,
                    num,
                    end_callback=end_callback,
                    cancel_callback=cancel_callback,
                )
            )
        )
        return group_name
"""
REG_FLAG_HELPER = """    def _register_group(self, group_name: str, must_be_new: bool = True) -> None:
        if must_be_new and group_name in self._task_groups:
            raise TaskGroupAlreadyExists(group_name)
        self._task_groups.setdefault(group_name, TaskGroupRegister())

    def _start_meta_task(self, group_name: str, spawner: Any, /, *spawner_args: Any, **spawner_kwargs: Any) -> None:
        meta_tasks = self._group_meta_tasks_running.setdefault(group_name, set())
        meta_tasks.add(create_task(spawner(*spawner_args, **spawner_kwargs)))

    def _get_running_task(self, task_id: int) -> Task[Any]:
"""
GRT = "    def _get_running_task(self, task_id: int) -> Task[Any]:\n"


def apply_new(reg_call: str, args: str = "group_name, func, args, kwargs, num") -> str:
    return f"""        {reg_call}
        self._start_meta_task(
            group_name, self._apply_spawner, {args},
            end_callback=end_callback, cancel_callback=cancel_callback,
        )
        return group_name
"""


v("P-flag-param-and-callable-param", [(P, APPLY_REG, apply_new("self._register_group(group_name)")), (P, GRT, REG_FLAG_HELPER)],
  {"C01": "ok", "C04": "ok", "C09": "ok", "C10": "ok", "C07": "ok", "C08": "ok"})
v("P-flag-param-explicit-true", [(P, APPLY_REG, apply_new("self._register_group(group_name, must_be_new=True)")), (P, GRT, REG_FLAG_HELPER)],
  {"C09": "ok", "C10": "ok"})
v("flag-param-false-skips-duplicate-check", [(P, APPLY_REG, apply_new("self._register_group(group_name, must_be_new=False)")), (P, GRT, REG_FLAG_HELPER)],
  {"C09": "R09", "C10": "R10.4"})
v("flag-param-default-false", [(P, APPLY_REG, apply_new("self._register_group(group_name)")), (P, GRT, REG_FLAG_HELPER.replace("must_be_new: bool = True", "must_be_new: bool = False"))],
  {"C09": "R09", "C10": "R10.4"})
v("flag-param-test-inverted", [(P, APPLY_REG, apply_new("self._register_group(group_name)")), (P, GRT, REG_FLAG_HELPER.replace("if must_be_new and group_name", "if not must_be_new and group_name"))],
  {"C09": "R09", "C10": "R10.4"})
v("callable-param-one-invocation-too-many", [(P, APPLY_REG, apply_new("self._register_group(group_name)", "group_name, func, args, kwargs, num + 1")), (P, GRT, REG_FLAG_HELPER)],
  {"C04": "R04"})
v("direct-call-one-invocation-too-many", [(P, "                    kwargs,\n                    num,\n                    end_callback=end_callback,", "                    kwargs,\n                    num + 1,\n                    end_callback=end_callback,")],
  {"C04": "R04.3w"})
v("callable-param-other-group", [(P, APPLY_REG, apply_new("self._register_group(group_name)", '"apply", func, args, kwargs, num')), (P, GRT, REG_FLAG_HELPER)],
  {"C10": "R10"})
v("callable-param-spawner-called-twice", [(P, APPLY_REG, apply_new("self._register_group(group_name)")),
                                          (P, GRT, REG_FLAG_HELPER.replace("        meta_tasks.add(create_task(spawner(*spawner_args, **spawner_kwargs)))\n",
                                                                           "        meta_tasks.add(create_task(spawner(*spawner_args, **spawner_kwargs)))\n        meta_tasks.add(create_task(spawner(*spawner_args, **spawner_kwargs)))\n"))],
  {"C04": "R04"})

FLUSH_POPS = """        for task_id in finished:
            self._tasks_ended.pop(task_id, None)
            self._tasks_cancelled.pop(task_id, None)
"""


def flush_alias(a: str, b: str) -> str:
    return f"""        pop_ended = {a}
        pop_cancelled = {b}
        for task_id in finished:
            pop_ended(task_id, None)
            pop_cancelled(task_id, None)
"""


v("P-bound-method-alias", [(P, FLUSH_POPS, flush_alias("self._tasks_ended.pop", "self._tasks_cancelled.pop"))], {"C13": "ok", "C02": "ok", "C03": "ok", "C12": "ok"})
v("bound-method-alias-of-running-registry", [(P, FLUSH_POPS, flush_alias("self._tasks_ended.pop", "self._tasks_running.pop"))], {"C13": "R13"})
v("bound-method-alias-same-registry-twice", [(P, FLUSH_POPS, flush_alias("self._tasks_ended.pop", "self._tasks_ended.pop"))], {"C13": "R13"})

APPLY_TRY = """            try:
                coroutine = func(*args, **kwargs)
            except Exception as e:
                # Probably something wrong with the function arguments.
                log.exception(
                    "%s occurred in group '%s' while trying to "
                    "create coroutine: %s(*%s, **%s)",
                    str(e.__class__.__name__),
                    group_name,
                    func.__name__,
                    repr(args),
                    repr(kwargs),
                )
                # TODO: Consider returning instead of continuing
                # https://github.com/daniil-berg/asyncio-taskpool/issues/5
                continue
"""
MARKER_HELPER = """    @staticmethod
    def _create_apply_coroutine(group_name: str, func: Any, args: Any, kwargs: Any) -> Any:
        try:
            return func(*args, **kwargs)
        except Exception as e:
            log.exception("%s occurred in group '%s' while trying to create coroutine: %s(*%s, **%s)",
                          str(e.__class__.__name__), group_name, func.__name__, repr(args), repr(kwargs))
            return _NOT_CREATED

    async def _apply_spawner(
"""
MARKER_DEF = ("log = logging.getLogger(__name__)\n", "log = logging.getLogger(__name__)\n\n_NOT_CREATED: Any = object()\n")


def marker_use(test: str) -> str:
    return f"""            coroutine = self._create_apply_coroutine(group_name, func, args, kwargs)
{test}"""


MK = [(P, MARKER_DEF[0], MARKER_DEF[1]), (P, "    async def _apply_spawner(\n", MARKER_HELPER)]
v("P-marker-object-return", MK + [(P, APPLY_TRY, marker_use("            if coroutine is _NOT_CREATED:\n                continue\n"))],
  {"C04": "ok", "C12": "ok", "C01": "ok", "C07": "ok"})
v("marker-object-test-dropped", MK + [(P, APPLY_TRY, marker_use(""))], {"C04": "R04", "C12": "R12"})
v("marker-object-test-inverted", MK + [(P, APPLY_TRY, marker_use("            if coroutine is not _NOT_CREATED:\n                continue\n"))], {"C04": "R04"})
v("marker-object-returns-instead-of-continue", MK + [(P, APPLY_TRY, marker_use("            if coroutine is _NOT_CREATED:\n                return\n"))], {"C04": "R04"})

# ---- round 7 / batch 7: status-returning helpers and records in _pop_ended_meta_tasks
POP_BODY = """        obsolete_keys, ended_meta_tasks = [], set()
        for group_name in self._group_meta_tasks_running:
            still_running = set()
            while self._group_meta_tasks_running[group_name]:
                meta_task = self._group_meta_tasks_running[group_name].pop()
                if meta_task.done():
                    ended_meta_tasks.add(meta_task)
                else:
                    still_running.add(meta_task)
            if still_running:
                self._group_meta_tasks_running[group_name] = still_running
            else:
                obsolete_keys.append(group_name)
        # If a group no longer has running meta tasks associated with,
        # we can remove its name from the dictionary.
        for group_name in obsolete_keys:
            del self._group_meta_tasks_running[group_name]
        return ended_meta_tasks
"""


def pop_collect(ret: str, fresh: bool) -> str:
    acc = "group_done" if fresh else "ended_meta_tasks"
    return f"""        ended_meta_tasks: Set[Task[Any]] = set()
        still_running: Dict[str, Set[Task[Any]]] = {{}}
        for group_name, meta_tasks in self._group_meta_tasks_running.items():
{'            group_done: Set[Task[Any]] = set()' + chr(10) if fresh else ''}            if not self._collect_done(meta_tasks, {acc}):
                still_running[group_name] = meta_tasks - {acc}
{'            ended_meta_tasks |= group_done' + chr(10) if fresh else ''}        self._group_meta_tasks_running = still_running
        return ended_meta_tasks

    @staticmethod
    def _collect_done(meta_tasks: Set[Task[Any]], done: Set[Task[Any]]) -> bool:
        done.update(task for task in meta_tasks if task.done())
        return {ret}
"""


v("P-collect-done-subset-test", [(P, POP_BODY, pop_collect("meta_tasks <= done", False))], {"C07": "ok", "C08": "ok", "C04": "ok", "C05": "ok"})
v("P-collect-done-issubset", [(P, POP_BODY, pop_collect("meta_tasks.issubset(done)", False))], {"C07": "ok", "C08": "ok"})
v("collect-done-size-test-shared-accumulator", [(P, POP_BODY, pop_collect("len(done) >= len(meta_tasks)", False))], {"C07": "R07.8", "C08": "R08.5"})
v("collect-done-always-true", [(P, POP_BODY, pop_collect("True", False))], {"C07": "R07.8"})

POP_RECORD = """        obsolete_keys: List[str] = []
        ended_meta_tasks: Set[Task[Any]] = set()
        for group_name in self._group_meta_tasks_running:
            done, pending = self._drain(self._group_meta_tasks_running[group_name])
            ended_meta_tasks.update(done)
            if pending:
                self._group_meta_tasks_running[group_name] = pending
            else:
                obsolete_keys.append(group_name)
        for group_name in obsolete_keys:
            del self._group_meta_tasks_running[group_name]
        return ended_meta_tasks

    @staticmethod
    def _drain(meta_tasks: Set[Task[Any]]) -> Tuple[List[Task[Any]], Set[Task[Any]]]:
        done: List[Task[Any]] = []
        pending: Set[Task[Any]] = set()
        while meta_tasks:
            meta_task = meta_tasks.pop()
            if meta_task.done():
                done.append(meta_task)
            else:
                pending.add(meta_task)
        return done, pending
"""
v("P-drain-helper-returns-pair", [(P, POP_BODY, POP_RECORD)], {"C07": "ok", "C08": "ok", "C04": "ok"})
v("drain-helper-pair-swapped", [(P, POP_BODY, POP_RECORD.replace("        return done, pending\n", "        return pending, done\n"))], {"C07": "R07.8"})
v("drain-helper-pending-dropped", [(P, POP_BODY, POP_RECORD.replace("                pending.add(meta_task)\n", "                pass\n"))], {"C07": "R07.8"})

# ---- round 7 second wave / batch 8
MAP_LOG_ARG = "                    str(next_arg),\n"
v("P-percent-format-of-a-one-tuple", [(P, MAP_LOG_ARG, '                    "%s" % (next_arg,),\n')], {"C05": "ok", "C12": "ok"})
v("percent-format-of-user-value-in-handler", [(P, MAP_LOG_ARG, '                    "%s" % next_arg,\n')], {"C05": "R05.2i", "C12": "R12.3"})

CANCEL_LOOKUPS = "        tasks = [self._get_running_task(task_id) for task_id in task_ids]\n"
v("P-cancel-lookups-tuple-of-generator", [(P, CANCEL_LOOKUPS, "        tasks = tuple(self._get_running_task(task_id) for task_id in task_ids)\n")], {"C06": "ok", "C14": "ok"})
v("cancel-lookups-bare-generator", [(P, CANCEL_LOOKUPS, "        tasks = (self._get_running_task(task_id) for task_id in task_ids)\n")], {"C06": "R06.3"})

PAIR_HELPER = """    @staticmethod
    def _create_apply_coroutine(group_name: str, func: Any, args: Any, kwargs: Any) -> Tuple[Any, bool]:
        try:
            coroutine = func(*args, **kwargs)
        except Exception as e:
            log.exception("%s occurred in group '%s' while trying to create coroutine: %s(*%s, **%s)",
                          str(e.__class__.__name__), group_name, func.__name__, repr(args), repr(kwargs))
            return None, False
        return coroutine, True

    async def _apply_spawner(
"""


def pair_use(test: str) -> str:
    return f"""            coroutine, created = self._create_apply_coroutine(group_name, func, args, kwargs)
{test}"""


PK = [(P, "    async def _apply_spawner(\n", PAIR_HELPER)]
v("P-pair-returning-helper", PK + [(P, APPLY_TRY, pair_use("            if not created:\n                continue\n"))], {"C04": "ok", "C12": "ok", "C07": "ok", "C01": "ok"})
v("pair-returning-helper-flag-inverted", PK + [(P, APPLY_TRY, pair_use("            if created:\n                continue\n"))], {"C04": "R04"})
v("pair-returning-helper-flag-ignored", PK + [(P, APPLY_TRY, pair_use(""))], {"C04": "R04", "C12": "R12"})
v("pair-returning-helper-swapped-components", [(P, "    async def _apply_spawner(\n", PAIR_HELPER.replace("        return coroutine, True\n", "        return True, coroutine\n"))]
  + [(P, APPLY_TRY, pair_use("            if not created:\n                continue\n"))], {"C04": "R04"})

v("P-cancel-kw-before-lookups", [(P, "        tasks = [self._get_running_task(task_id) for task_id in task_ids]\n        kw = self._get_cancel_kw(msg)\n",
                                 "        kw = self._get_cancel_kw(msg)\n        tasks = [self._get_running_task(task_id) for task_id in task_ids]\n")], {"C06": "ok", "C07": "ok", "C14": "ok"})
v("cancel-lookups-generator-in-loop-header", [(P, "        tasks = [self._get_running_task(task_id) for task_id in task_ids]\n        kw = self._get_cancel_kw(msg)\n        for task in tasks:\n",
                                              "        kw = self._get_cancel_kw(msg)\n        for task in (self._get_running_task(task_id) for task_id in task_ids):\n")], {"C06": "viol"})

STOP_BREAK = "                # there may well be more tasks left to keep running\n                break\n"
v("P-stop-bound-continue-instead-of-break", [(P, STOP_BREAK, "                # there may well be more tasks left to keep running\n                continue\n")], {"C14": "ok"})
v("stop-bound-test-after-append", [(P, "            if i >= num:\n                # We got the desired number of task IDs,\n" + STOP_BREAK + "            ids.append(task_id)\n",
                                    "            ids.append(task_id)\n            if i >= num:\n                break\n")], {"C14": "R14.1"})

v("P-closed-set-before-running-cleared", [(P, "        self._tasks_running.clear()\n        self._closed.set()\n", "        self._closed.set()\n        self._tasks_running.clear()\n")], {"C08": "ok"})

# ---- round 8: decorators (WHAT-RUNS)
LOGGED_DECORATOR = """log = logging.getLogger(__name__)


def _logged(method: Any) -> Any:
    @functools.wraps(method)
    async def wrapper(self: Any, *args: Any, **kwargs: Any) -> Any:
        log.debug("calling %s", method.__name__)
        result = await method(self, *args, **kwargs)
        log.debug("%s returned", method.__name__)
        return result

    return wrapper
"""
SHARED_DECORATOR = """log = logging.getLogger(__name__)


def _single_flight(method: Any) -> Any:
    @functools.wraps(method)
    async def wrapper(self: Any, *args: Any, **kwargs: Any) -> Any:
        pending = getattr(self, "_pending_flush", None)
        if pending is None or pending.done():
            pending = asyncio.ensure_future(method(self, *args, **kwargs))
            self._pending_flush = pending
        return await asyncio.shield(pending)

    return wrapper
"""
SKIPPING_DECORATOR = """log = logging.getLogger(__name__)


def _only_when_unlocked(method: Any) -> Any:
    @functools.wraps(method)
    async def wrapper(self: Any, *args: Any, **kwargs: Any) -> Any:
        if self._locked:
            return None
        return await method(self, *args, **kwargs)

    return wrapper
"""
IMPORTS = ("import logging\n", "import asyncio\nimport functools\nimport logging\n")
LOGLINE = "log = logging.getLogger(__name__)\n"
FLUSH_DEF = "    async def flush(\n"
v("P-transparent-logging-decorator-on-flush", [(P, IMPORTS[0], IMPORTS[1]), (P, LOGLINE, LOGGED_DECORATOR), (P, FLUSH_DEF, "    @_logged\n" + FLUSH_DEF)], {"C13": "ok", "C08": "ok", "C12": "ok"})
v("single-flight-decorator-on-flush", [(P, IMPORTS[0], IMPORTS[1]), (P, LOGLINE, SHARED_DECORATOR), (P, FLUSH_DEF, "    @_single_flight\n" + FLUSH_DEF)], {"C13": "R00.D", "C12": "R00.D"})
v("skipping-decorator-on-flush", [(P, IMPORTS[0], IMPORTS[1]), (P, LOGLINE, SKIPPING_DECORATOR), (P, FLUSH_DEF, "    @_only_when_unlocked\n" + FLUSH_DEF)], {"C13": "R00.D"})
v("lru-cache-on-task-name", [(P, IMPORTS[0], IMPORTS[1]), (P, "    def _task_name(self, task_id: int) -> str:\n", "    @functools.lru_cache(maxsize=None)\n    def _task_name(self, task_id: int) -> str:\n")], {"C11": "R00.D"})

v("flush-rebound-at-module-level", [(P, "AnyTaskPoolT = Union[TaskPool, SimpleTaskPool]\n",
   "AnyTaskPoolT = Union[TaskPool, SimpleTaskPool]\n\n\nasync def _flush_fast(self: Any, return_exceptions: bool = False) -> None:\n    self._tasks_ended.clear()\n    self._tasks_cancelled.clear()\n\n\nBaseTaskPool.flush = _flush_fast  # type: ignore[method-assign]\n")],
  {"C13": "R00.D"})

CONSTS = "internals/constants.py"
v("ok-constant-uppercase", [(CONSTS, 'CMD_OK = b"ok"', 'CMD_OK = b"OK"')], {"C17": "R17.9"})
v("ok-constant-empty", [(CONSTS, 'CMD_OK = b"ok"', 'CMD_OK = b""')], {"C17": "R17.9"})
SESS = "control/session.py"
v("P-ok-text-hoisted-to-module-constant", [(SESS, "log = logging.getLogger(__name__)\n", "log = logging.getLogger(__name__)\n\n_OK_TEXT = CMD_OK.decode()\n"),
                                           (SESS, "        self._response_buffer.write(\n            CMD_OK.decode() if output is None else str(output)\n        )\n\n    async def _exec_property_and_respond(",
                                            "        self._response_buffer.write(\n            _OK_TEXT if output is None else str(output)\n        )\n\n    async def _exec_property_and_respond(")],
  {"C17": "ok", "C18": "ok"})

PARSER = "control/parser.py"
v("omit-params-default-misspelt", [(PARSER, 'OMIT_PARAMS_DEFAULT = ("self",)', 'OMIT_PARAMS_DEFAULT = ("selfx",)')], {"C17": "R17.10"})
v("omit-params-default-empty", [(PARSER, 'OMIT_PARAMS_DEFAULT = ("self",)', 'OMIT_PARAMS_DEFAULT = ()')], {"C17": "R17.10"})

# a module-level text helper with parameters: the holes of its template are what each call passes (rf110)
SUFFIXED = LOGLINE + "\n\ndef _suffixed(base: str, suffix: object) -> str:\n    return f\"{base}-{suffix}\"\n"
SUFFIXED_BAD = LOGLINE + "\n\ndef _suffixed(base: str, suffix: object) -> str:\n    return f\"{base}_{suffix}\"\n"
STR_BODY = '        return f"{self.__class__.__name__}-{self._name or self._idx}"\n'
START_NAME = '        group_name = f"start-group-{self._start_calls}"\n'
v("P-suffixed-helper-for-names", [(P, LOGLINE, SUFFIXED), (P, STR_BODY, "        return _suffixed(self.__class__.__name__, self._name or self._idx)\n"),
                                  (P, START_NAME, '        group_name = _suffixed("start-group", self._start_calls)\n')], {"C10": "ok", "C11": "ok"})
v("suffixed-helper-underscore", [(P, LOGLINE, SUFFIXED_BAD), (P, STR_BODY, "        return _suffixed(self.__class__.__name__, self._name or self._idx)\n"),
                                 (P, START_NAME, '        group_name = _suffixed("start-group", self._start_calls)\n')], {"C10": "R10.3", "C11": "R11.2"})
v("suffixed-helper-args-swapped", [(P, LOGLINE, SUFFIXED), (P, START_NAME, '        group_name = _suffixed(self._start_calls, "start-group")\n')], {"C10": "R10.3"})
v("suffixed-helper-wrong-counter", [(P, LOGLINE, SUFFIXED), (P, START_NAME, '        group_name = _suffixed("start-group", self._num_started)\n')], {"C10": "R10.3"})

# the spawner loops fed by a generator helper and the spawner tasks made by a helper given a lambda (rf102): the loop over the generator is
# replaced by the generator's body (normaliser), so the iteration rules read it like the direct loop - and catch its broken siblings
GEN_ELSE = "            else:\n                yield i, coroutine\n"
v("P-generator-fed-spawners", [], {"C01": "ok", "C04": "ok", "C05": "ok", "C07": "ok", "C09": "ok", "C10": "ok", "C12": "ok"}, base="rf102")
v("generator-yields-after-failure-too", [(P, "                log_failure(e, item)\n" + GEN_ELSE, "                log_failure(e, item)\n                coroutine = None\n            yield i, coroutine\n")],
  {"C04": "viol", "C12": "viol"}, base="rf102")
v("generator-calls-user-function-twice", [(P, "                coroutine = make_coroutine(item)\n", "                make_coroutine(item)\n                coroutine = make_coroutine(item)\n")],
  {"C04": "viol", "C05": "viol"}, base="rf102")
v("generator-over-one-more-than-num", [(P, "            range(num), make_coroutine, log_failure\n", "            range(num + 1), make_coroutine, log_failure\n")], {"C04": "viol"}, base="rf102")
v("generator-drains-iterable-first", [(P, "        for i, item in enumerate(items):\n            try:\n                coroutine = make_coroutine(item)", "        for i, item in enumerate(list(items)):\n            try:\n                coroutine = make_coroutine(item)")],
  {"C05": "viol"}, base="rf102")
v("generator-skips-first-item", [(P, "        for i, item in enumerate(items):\n            try:\n                coroutine = make_coroutine(item)", "        for i, item in enumerate(items):\n            if i == 0:\n                continue\n            try:\n                coroutine = make_coroutine(item)")],
  {"C04": "viol", "C05": "viol"}, base="rf102")
v("lambda-factory-called-twice", [(P, "        meta_tasks.add(create_task(get_meta_coroutine()))\n", "        meta_tasks.add(create_task(get_meta_coroutine()))\n        meta_tasks.add(create_task(get_meta_coroutine()))\n")],
  {"C04": "viol", "C10": "viol"}, base="rf102")
v("lambda-factory-before-registration", [(P, "        if group_name in self._task_groups:\n            raise TaskGroupAlreadyExists(group_name)\n        self._task_groups[group_name] = TaskGroupRegister()\n        meta_tasks = self._group_meta_tasks_running.setdefault(\n            group_name, set()\n        )\n        meta_tasks.add(create_task(get_meta_coroutine()))\n",
   "        task = create_task(get_meta_coroutine())\n        if group_name in self._task_groups:\n            raise TaskGroupAlreadyExists(group_name)\n        self._task_groups[group_name] = TaskGroupRegister()\n        meta_tasks = self._group_meta_tasks_running.setdefault(\n            group_name, set()\n        )\n        meta_tasks.add(task)\n")],
  {"C09": "viol"}, base="rf102")

# cancel targets looked up in a combined view of registries (round 9, C03i): a view over the running registry alone is fine,
# one that also shows tasks filed as cancelled lets a group cancel interrupt a cancel callback in progress
IS_FULL_PROP = "    @property\n    def is_full(self) -> bool:\n"
CANCEL_LOOKUP = "                self._tasks_running[group_reg.pop()].cancel(**cancel_kw)\n"
v("P-cancel-through-running-only-view", [(P, IS_FULL_PROP, "    @property\n    def _tasks_live(self) -> Dict[int, Task[Any]]:\n        return {**self._tasks_running}\n\n" + IS_FULL_PROP),
                                         (P, CANCEL_LOOKUP, "                self._tasks_live[group_reg.pop()].cancel(**cancel_kw)\n")], {"C03": "ok", "C07": "ok"})
v("cancel-through-running-and-cancelled-view", [(P, IS_FULL_PROP, "    @property\n    def _tasks_live(self) -> Dict[int, Task[Any]]:\n        return {**self._tasks_running, **self._tasks_cancelled}\n\n" + IS_FULL_PROP),
                                                (P, CANCEL_LOOKUP, "                self._tasks_live[group_reg.pop()].cancel(**cancel_kw)\n")], {"C03": "R03.8"})
v("cancel-through-union-of-running-and-ended", [(P, CANCEL_LOOKUP, "                (self._tasks_running | self._tasks_ended)[group_reg.pop()].cancel(**cancel_kw)\n")], {"C03": "R03.8"})

# batch 11 / round 10 mechanisms: walrus-filtered name generator, option-table method, map() look-ups, collected generator,
# conversion sites (R17.11), executable commands (R16.5)
GEN_LOOP = """        i = 0
        while True:
            name = f"{base_name}-{i}"
            if name not in self._task_groups:
                return name
            i += 1
"""
IMPORT_CHAIN = ("from math import inf\n", "from itertools import count\nfrom math import inf\n")
v("P-name-generator-next-with-walrus", [(P, IMPORT_CHAIN[0], IMPORT_CHAIN[1]), (P, GEN_LOOP, '        return next(\n            name\n            for i in count()\n            if (name := f"{base_name}-{i}") not in self._task_groups\n        )\n')], {"C10": "ok"})
v("name-generator-walrus-returns-taken-name", [(P, IMPORT_CHAIN[0], IMPORT_CHAIN[1]), (P, GEN_LOOP, '        return next(\n            name\n            for i in count()\n            if (name := f"{base_name}-{i}") in self._task_groups\n        )\n')], {"C10": "R10.3"})
v("name-generator-walrus-wrong-pattern", [(P, IMPORT_CHAIN[0], IMPORT_CHAIN[1]), (P, GEN_LOOP, '        return next(\n            name\n            for i in count()\n            if (name := f"{base_name}_{i}") not in self._task_groups\n        )\n')], {"C10": "R10.3"})
START_NUM_CALL = """                await self._start_task(
                    coroutine,
                    group_name=group_name,
                    end_callback=self._end_callback,
                    cancel_callback=self._cancel_callback,
                )
"""
OPTS = '    def _task_options(self, group_name: str) -> Dict[str, Any]:\n        return {\n            "group_name": group_name,\n            "end_callback": self._end_callback,\n            "cancel_callback": self._cancel_callback,\n        }\n\n'
START_NUM_DEF = "    async def _start_num(self, num: int, group_name: str) -> None:\n"
v("P-start-num-option-table", [(P, START_NUM_DEF, OPTS + START_NUM_DEF), (P, START_NUM_CALL, "                await self._start_task(\n                    coroutine, **self._task_options(group_name)\n                )\n")], {"C04": "ok", "C10": "ok", "C03": "ok", "C14": "ok"})
v("start-num-option-table-locks", [(P, START_NUM_DEF, OPTS.replace('"group_name": group_name,', '"group_name": group_name,\n            "ignore_lock": False,') + START_NUM_DEF),
                                   (P, START_NUM_CALL, "                await self._start_task(\n                    coroutine, **self._task_options(group_name)\n                )\n")], {"C04": "R04.2"})
v("start-num-option-table-swaps-callbacks", [(P, START_NUM_DEF, OPTS.replace('"end_callback": self._end_callback', '"end_callback": self._cancel_callback').replace('"cancel_callback": self._cancel_callback', '"cancel_callback": self._end_callback') + START_NUM_DEF),
                                             (P, START_NUM_CALL, "                await self._start_task(\n                    coroutine, **self._task_options(group_name)\n                )\n")], {"C03": "viol"})
LOOKUPS = "        tasks = [self._get_running_task(task_id) for task_id in task_ids]\n"
v("P-cancel-lookups-list-map", [(P, LOOKUPS, "        tasks = list(map(self._get_running_task, task_ids))\n")], {"C06": "ok", "C03": "ok", "C14": "ok"})
v("cancel-lookups-map-of-plain-get", [(P, LOOKUPS, "        tasks = list(map(self._tasks_running.get, task_ids))\n")], {"C06": "viol"})
v("cancel-lookups-lazy-map", [(P, LOOKUPS, "        tasks = map(self._get_running_task, task_ids)\n")], {"C06": "viol"})
STOP_LOOP = """        ids = []
        for i, task_id in enumerate(reversed(self._tasks_running)):
            if i >= num:
                # We got the desired number of task IDs,
                # there may well be more tasks left to keep running
                break
            ids.append(task_id)
"""
STOP_DEF = "    def stop(self, num: int) -> List[int]:\n"
NEWEST = "    def _newest_task_ids(self, num: int) -> Any:\n        for idx, task_id in enumerate(reversed(self._tasks_running)):\n            if idx >= num:\n                return\n            yield task_id\n\n"
v("P-stop-collects-generator", [(P, STOP_DEF, NEWEST + STOP_DEF), (P, STOP_LOOP, "        ids = list(self._newest_task_ids(num))\n")], {"C14": "ok", "C06": "ok"})
v("stop-collects-generator-one-too-many", [(P, STOP_DEF, NEWEST.replace("idx >= num", "idx > num") + STOP_DEF), (P, STOP_LOOP, "        ids = list(self._newest_task_ids(num))\n")], {"C14": "R14.1"})
v("stop-collects-generator-oldest-first", [(P, STOP_DEF, NEWEST.replace("reversed(self._tasks_running)", "self._tasks_running") + STOP_DEF), (P, STOP_LOOP, "        ids = list(self._newest_task_ids(num))\n")], {"C14": "R14.1"})
SUBP = "        self._commands = cast(\n            _CanAddControlParser, super().add_subparsers(*args, **kwargs)\n        )\n        return self._commands\n"
v("subparsers-action-type-lower", [(PARSER, SUBP, "        action = super().add_subparsers(*args, **kwargs)\n        action.type = str.lower\n        self._commands = cast(_CanAddControlParser, action)\n        return self._commands\n")], {"C17": "R17.11"})
v("subparsers-created-with-type", [(SESS, '            title="Commands",\n', '            title="Commands",\n            type=str.lower,\n')], {"C17": "R17.11"})
v("converter-from-other-attribute", [(PARSER, '                "type", _get_type_from_annotation(parameter.annotation)\n', '                "type", _get_type_from_annotation(parameter.default)\n')], {"C17": "R17.11"})
v("P-converter-through-local", [(PARSER, '            kwargs.setdefault(\n                "type", _get_type_from_annotation(parameter.annotation)\n            )\n', '            arg_type = _get_type_from_annotation(parameter.annotation)\n            kwargs.setdefault("type", arg_type)\n')], {"C17": "ok", "C16": "ok"})
v("positional-dest-dashed", [(PARSER, "            name_or_flags = [parameter.name]\n", '            name_or_flags = [parameter.name.replace("_", "-")]\n')], {"C16": "R16.5", "C17": "R17.3"})

v("parser-reads-arguments-from-files", [(SESS, '            "prog": "",\n', '            "prog": "",\n            "fromfile_prefix_chars": "@",\n')], {"C17": "R17.12", "C18": "R18.6"})
v("parser-exit-on-error-off", [(SESS, '            "prog": "",\n', '            "prog": "",\n            "exit_on_error": False,\n')], {"C18": "R18.6"})
v("subparser-argument-default-suppress", [(PARSER, "        super().__init__(**kwargs)\n        self._flags", '        kwargs.setdefault("argument_default", SUPPRESS)\n        super().__init__(**kwargs)\n        self._flags')], {"C17": "R17.12"})
v("P-parser-allow-abbrev-spelled-out", [(SESS, '            "prog": "",\n', '            "prog": "",\n            "allow_abbrev": True,\n')], {"C17": "ok", "C18": "ok"})

# R19.8: a read loop that goes round again on an empty read never yields once the client has hung up
v("listen-continues-on-empty-read", [(SESS, '                log.debug("%s disconnected", self._client_class_name)\n                break\n', '                log.debug("%s disconnected", self._client_class_name)\n                continue\n')], {"C19": "R19.8"})
v("handshake-skips-blank-lines", [(SESS, "        msg = (await self._reader.readline()).decode().strip()\n        client_info = json.loads(msg)\n", '        msg = ""\n        while not msg:\n            msg = (await self._reader.readline()).decode().strip()\n        client_info = json.loads(msg)\n')], {"C19": "R19.8"})

WRAP_IS = "        if arg is SUPPRESS:\n"
v("suppress-compared-by-equality", [(PARSER, WRAP_IS, "        if arg == SUPPRESS:\n")], {"C17": "R17.6", "C18": "R18.7"})
v("suppress-test-dropped", [(PARSER, WRAP_IS, "        if isinstance(arg, str) and arg.startswith('=='):\n")], {"C18": "R18.7"})
CANCEL_MEMBER = """            try:
                self._tasks_running[group_reg.pop()].cancel(**cancel_kw)
            except KeyError:
                continue
"""
v("P-group-cancel-get-and-skip-missing", [(P, CANCEL_MEMBER, "            task = self._tasks_running.get(group_reg.pop())\n            if task is None:\n                continue\n            task.cancel(**cancel_kw)\n")], {"C07": "ok", "C03": "ok"})
v("group-cancel-skips-current-task", [(P, "from asyncio.tasks import Task, create_task, gather\n", "from asyncio.tasks import Task, create_task, current_task, gather\n"),
                                      (P, CANCEL_MEMBER, "            task = self._tasks_running.get(group_reg.pop())\n            if task is None or task is current_task():\n                continue\n            task.cancel(**cancel_kw)\n")], {"C07": "viol"})
v("group-cancel-skips-even-ids", [(P, CANCEL_MEMBER, "            task_id = group_reg.pop()\n            if task_id % 2 == 0:\n                continue\n            try:\n                self._tasks_running[task_id].cancel(**cancel_kw)\n            except KeyError:\n                continue\n")], {"C07": "viol"})

# helpers moved into internals/helpers.py (rf121): the rules follow the helper's parameters back to the call
HELPERS = "internals/helpers.py"
v("P-moved-helpers", [], {"C10": "ok", "C14": "ok", "C17": "ok"}, base="rf121")
v("moved-unique-name-returns-taken", [(HELPERS, "        if name not in taken:\n            return name\n", "        if name in taken:\n            return name\n")], {"C10": "R10.3"}, base="rf121")
v("moved-unique-name-other-table", [(P, "        return unique_name(base_name, self._task_groups)\n", "        return unique_name(base_name, self._tasks_running)\n")], {"C10": "R10.3"}, base="rf121")
v("moved-first-n-oldest-first", [(P, "        ids = first_n(reversed(self._tasks_running), num)\n", "        ids = first_n(self._tasks_running, num)\n")], {"C14": "R14.1"}, base="rf121")
v("moved-first-n-off-by-one", [(HELPERS, "        if i >= num:\n", "        if i > num:\n")], {"C14": "R14.1"}, base="rf121")
v("moved-ok-constant-shadowed-in-helpers", [(HELPERS, "def output_to_response(", "CMD_OK = b\"OK\"\n\n\ndef output_to_response(")], {"C17": "viol"}, base="rf121")

# premises shared across checks (matrix review after round 11)
v("return-or-exception-catches-less", [(HELPERS, "    except Exception as e:\n        return e\n", "    except (ValueError, TypeError, KeyError) as e:\n        return e\n")], {"C17": "viol", "C18": "viol"})
v("execute-optional-never-awaits", [(HELPERS, "    if iscoroutinefunction(function):\n        return await cast(Awaitable[_R], function(*args, **kwargs))\n    return cast(_R, function(*args, **kwargs))\n", "    return cast(_R, function(*args, **kwargs))\n")], {"C03": "viol", "C05": "viol"})

# round 12 / batch 13
v("P-split-arguments-on-a-copy", [], {"C17": "ok", "C16": "ok", "C18": "ok"}, base="rf131")
v("split-arguments-pops-the-original-not-the-copy", [(SESS, "            normal_pos.append(keyword.pop(param.name))\n", "            normal_pos.append(arguments.pop(param.name))\n")], {"C17": "R17.1"}, base="rf131")
v("P-private-properties-for-task-views", [], {"C02": "ok", "C08": "ok", "C12": "ok", "C13": "ok"}, base="rf135")
v("private-property-snapshot-is-a-live-view", [(P, "        finished: Dict[int, Task[Any]] = dict(self._tasks_ended)\n        finished.update(self._tasks_cancelled)\n        return finished\n",
                                              "        from collections import ChainMap\n        return ChainMap(self._tasks_ended, self._tasks_cancelled)  # type: ignore[return-value]\n")], {"C13": "R13.1"}, base="rf135")
v("private-property-all-tasks-misses-running", [(P, "            *self._tasks_cancelled.values(),\n            *self._tasks_running.values(),\n        ]\n", "            *self._tasks_cancelled.values(),\n        ]\n")], {"C08": "viol"}, base="rf135")
v("first-doc-line-splitlines", [(HELPERS, '    return doc.strip().split("\\n", 1)[0].strip()\n', "    return doc.splitlines()[0].strip()\n")], {"C16": "R16.7"})
v("P-first-doc-line-partition", [(HELPERS, '    return doc.strip().split("\\n", 1)[0].strip()\n', '    return doc.strip().partition("\\n")[0].strip()\n')], {"C16": "ok"})
v("session-kept-on-the-server", [(SESS.replace("session", "server"), "        session = ControlSession(self, reader, writer)\n        try:\n            await session.client_handshake()\n            await session.listen()\n",
                                  "        self._session = ControlSession(self, reader, writer)\n        try:\n            await self._session.client_handshake()\n            await self._session.listen()\n")], {"C18": "R18.8", "C19": "R19.9"})
v("module-level-cache-in-helpers", [(HELPERS, "@overload\nasync def execute_optional(\n    function: Callable[_P, _R | Awaitable[_R]],", "_SEEN: dict = {}\n\n\ndef _is_coro(function: object) -> bool:\n    key = id(function)\n    if key not in _SEEN:\n        _SEEN[key] = iscoroutinefunction(function)\n    return _SEEN[key]\n\n\n@overload\nasync def execute_optional(\n    function: Callable[_P, _R | Awaitable[_R]],"),
                                    (HELPERS, "    if iscoroutinefunction(function):\n        return await cast(Awaitable[_R], function(*args, **kwargs))\n", "    if _is_coro(function):\n        return await cast(Awaitable[_R], function(*args, **kwargs))\n")], {"C03": "R00.M", "C05": "R00.M"})
v("check-start-accepts-callables", [(P, "        if function and not iscoroutinefunction(function):\n", "        if function and not (iscoroutinefunction(function) or iscoroutinefunction(getattr(function, '__call__', None))):\n")], {"C09": "R09.5"})
v("P-check-start-predicate-through-helper", [(P, "class BaseTaskPool:\n", "def _is_coro_fn(function: object) -> bool:\n    return iscoroutinefunction(function)\n\n\nclass BaseTaskPool:\n"),
                                             (P, "        if function and not iscoroutinefunction(function):\n", "        if function and not _is_coro_fn(function):\n")], {"C09": "ok"})

GR = "internals/group_register.py"
v("register-discard-noop", [(GR, "        self._ids.discard(task_id)\n", "        pass\n")], {"C07": "R07.10", "C10": "R10.9"})
v("register-len-lies", [(GR, "        return len(self._ids)\n", "        return len(self._ids) > 1\n")], {"C07": "R07.10"})
v("register-iter-partial", [(GR, "        return iter(self._ids)\n", "        return iter(sorted(self._ids)[:1])\n")], {"C10": "R10.9"})
v("register-pop-overridden", [(GR, "    async def acquire(self) -> bool:\n", "    def pop(self) -> int:\n        return max(self._ids)\n\n    async def acquire(self) -> bool:\n")], {"C07": "R07.10"})

VARIANTS = V

# ---- batch 14 (rf137-rf144): generator imported from a sibling module, private property with a setter, look-ups collected by a helper
v("P-imported-generator-drains-register", [], {"C07": "ok", "C09": "ok", "C10": "ok"}, base="rf137")
v("imported-generator-leaves-one-member", [(GR, "    while ids:\n        yield ids.pop()\n", "    while len(ids) > 1:\n        yield ids.pop()\n")], {"C07": "R07.2"}, base="rf137")
v("imported-generator-yields-without-removing", [(GR, "    while ids:\n        yield ids.pop()\n", "    for i in ids:\n        yield i\n")], {"C07": "alarm"}, base="rf137")
v("P-private-property-with-setter", [], {"C01": "ok", "C15": "ok"}, base="rf138")
v("private-setter-used-by-lock", [(P, "        self._locked = True\n        log.info(\"%s is locked!\", str(self))\n", "        self._locked = True\n        self._room_value = 0\n        log.info(\"%s is locked!\", str(self))\n")], {"C01": "R01.4", "C15": "R15.7"}, base="rf138")
v("P-lookups-collected-by-helper", [], {"C06": "ok", "C07": "ok", "C14": "ok"}, base="rf143")
v("lookup-helper-filters-ids", [(P, "        return [self._get_running_task(task_id) for task_id in task_ids]\n", "        return [self._get_running_task(task_id) for task_id in task_ids if task_id]\n")], {"C06": "R06.3"}, base="rf143")
v("lookup-helper-lazy-generator", [(P, "        return [self._get_running_task(task_id) for task_id in task_ids]\n", "        return (self._get_running_task(task_id) for task_id in task_ids)  # type: ignore[return-value]\n")], {"C06": "viol"}, base="rf143")
v("cancel-each-skips-first", [(P, "        for task in tasks:\n            task.cancel(**cancel_kw)\n", "        for task in list(tasks)[1:]:\n            task.cancel(**cancel_kw)\n")], {"C06": "alarm"}, base="rf143")
# ---- F9 (fixed in 4221d47): flush() must not absorb the cancellation of its caller
v("flush-suppresses-callers-cancellation-again", [(P, "        await gather(*self._meta_tasks_cancelled, return_exceptions=True)\n        await gather(\n            *self._pop_ended_meta_tasks(),\n            return_exceptions=return_exceptions,\n        )\n        self._meta_tasks_cancelled.clear()\n        # Only", "        with suppress(CancelledError):\n            await gather(\n                *self._meta_tasks_cancelled,\n                *self._pop_ended_meta_tasks(),\n                return_exceptions=return_exceptions,\n            )\n        self._meta_tasks_cancelled.clear()\n        # Only"), (P, "from math import inf\n", "from contextlib import suppress\nfrom math import inf\n")], {"C07": "R07.11", "C06": "R06.7", "C14": "R14.10"})
v("until-closed-swallows-cancellation", [(P, "        return await self._closed.wait()\n", "        try:\n            return await self._closed.wait()\n        except CancelledError:\n            return False\n")], {"C07": "R07.11"})
v("P-flush-cancel-handler-reraises", [(P, "        await gather(*self._meta_tasks_cancelled, return_exceptions=True)\n        await gather(\n            *self._pop_ended_meta_tasks(),", "        try:\n            await gather(*self._meta_tasks_cancelled, return_exceptions=True)\n        except CancelledError:\n            log.debug(\"%s flush interrupted\", str(self))\n            raise\n        await gather(\n            *self._pop_ended_meta_tasks(),")], {"C07": "ok", "C06": "ok", "C13": "ok"})

# ---- batch 15 (rf145-rf152)
v("P-end-wrapper-is-a-partial", [], {"C05": "ok", "C12": "ok"}, base="rf147")
v("partial-wrapper-executes-before-release", [(P, "    map_semaphore.release()\n    await execute_optional(actual_end_callback, args=(task_id,))\n", "    await execute_optional(actual_end_callback, args=(task_id,))\n    map_semaphore.release()\n")], {"C05": "R05.4", "C12": "R12.1m"}, base="rf147")
v("partial-wrapper-bound-to-other-semaphore", [(P, "        return partial(\n            _release_then_execute, map_semaphore, actual_end_callback\n        )\n", "        return partial(\n            _release_then_execute, Semaphore(), actual_end_callback\n        )\n")], {"C05": "alarm"}, base="rf147")
v("partial-wrapper-renamed-parameter", [(P, "async def _release_then_execute(\n    map_semaphore: Semaphore,", "async def _release_then_execute(\n    sem: Semaphore,"), (P, "    map_semaphore.release()\n    await execute_optional(actual_end_callback, args=(task_id,))\n", "    sem.release()\n    await execute_optional(actual_end_callback, args=(task_id,))\n")], {"C05": "ok", "C12": "ok"}, base="rf147")
v("P-alias-property-start-counter", [], {"C10": "ok", "C14": "ok"}, base="rf151")
v("alias-property-counter-not-advanced", [(P, "        self._group_counter += 1\n", "        self._group_counter += 0\n")], {"C10": "R10.3"}, base="rf151")
v("P-special-kwargs-property", [], {"C18": "ok", "C16": "ok"}, base="rf150")
v("special-kwargs-property-other-stream", [(PA, "        return CommandParserSpecialKwargs(\n            stream=self._stream,\n", "        return CommandParserSpecialKwargs(\n            stream=sys.stdout,\n"), (PA, "from __future__ import annotations\n", "from __future__ import annotations\n\nimport sys\n")], {"C18": "R18.1"}, base="rf150")
v("P-star-constants-imported", [], {"C05": "ok"}, base="rf148")
v("star-constants-swapped", [(HELPERS, "    if arg_stars == SINGLE_STAR:\n        return function(*arg)\n    if arg_stars == DOUBLE_STAR:\n        return function(**arg)\n", "    if arg_stars == DOUBLE_STAR:\n        return function(*arg)\n    if arg_stars == SINGLE_STAR:\n        return function(**arg)\n")], {"C05": "R05.1"}, base="rf148")
v("star-constant-value-changed", [("internals/constants.py", "SINGLE_STAR = 1\nDOUBLE_STAR = 2\n", "SINGLE_STAR = 2\nDOUBLE_STAR = 1\n")], {"C05": "R05.1"}, base="rf148")
# ---- round 14
v("group-helper-skips-spawners-of-empty-group", [(P, "        self._cancel_group_meta_tasks(group_name)\n        while group_reg:", "        if not group_reg:\n            return\n        self._cancel_group_meta_tasks(group_name)\n        while group_reg:")], {"C07": "R07.2", "C08": "R08.11"})
v("P-ids-through-imported-yield-from", [], {"C10": "ok", "C07": "ok"}, base="rf152")
v("imported-members-skips-small-groups", [(GR, "    for members in groups:\n        yield from members\n", "    for members in groups:\n        if len(members) > 1:\n            yield from members\n")], {"C10": "alarm"}, base="rf152")
v("get-group-unknown-name-gives-empty", [(P, "        try:\n            return self._task_groups[group_name]\n        except KeyError:\n            raise TaskGroupNotFound(group_name) from None\n", "        try:\n            return self._task_groups[group_name]\n        except KeyError:\n            return TaskGroupRegister()\n")], {"C10": "alarm"}, base="rf152")
v("pop-items-generator-keeps-last", [(GR, "    while mapping:\n        yield mapping.popitem()\n", "    while len(mapping) > 1:\n        yield mapping.popitem()\n")], {"C07": "alarm"}, base="rf152")
# ---- round 14: rebuilt registries in flush
v("flush-rebuild-from-stale-alias", [(P, "        finished = {**self._tasks_ended, **self._tasks_cancelled}\n", "        ended = self._tasks_ended\n        finished = {**ended, **self._tasks_cancelled}\n"),
   (P, "        for task_id in finished:\n            self._tasks_ended.pop(task_id, None)\n            self._tasks_cancelled.pop(task_id, None)\n", "        self._tasks_ended = {k: t for k, t in ended.items() if k not in finished}\n        for task_id in finished:\n            self._tasks_cancelled.pop(task_id, None)\n")], {"C13": "R13.1"})
v("P-flush-rebuild-from-current-registry", [(P, "        for task_id in finished:\n            self._tasks_ended.pop(task_id, None)\n            self._tasks_cancelled.pop(task_id, None)\n", "        self._tasks_ended = {k: t for k, t in self._tasks_ended.items() if k not in finished}\n        for task_id in finished:\n            self._tasks_cancelled.pop(task_id, None)\n")], {"C13": "ok", "C02": "ok"})
v("session-decodes-latin1", [(SESS, "            msg = (await self._reader.readline()).decode().strip()\n", "            msg = (await self._reader.readline()).decode(\"latin-1\").strip()\n")], {"C17": "R17.14"})
v("session-decodes-ignoring-errors", [(SESS, "            msg = (await self._reader.readline()).decode().strip()\n", "            msg = (await self._reader.readline()).decode(errors=\"ignore\").strip()\n")], {"C17": "R17.14"})
v("P-session-decodes-utf8-explicitly", [(SESS, "            msg = (await self._reader.readline()).decode().strip()\n", "            msg = (await self._reader.readline()).decode(\"utf-8\").strip()\n")], {"C17": "ok"})
v("final-callback-resets-server", [(SV, "    def _final_callback(self) -> None:\n        log.debug(\"Closed socket at %s:%s\", self._host, self._port)\n", "    def _final_callback(self) -> None:\n        self._server = None\n        log.debug(\"Closed socket at %s:%s\", self._host, self._port)\n")], {"C19": "R19.1"})
v("annotation-looked-up-in-dict", [(PA, "    if any(annotation is t for t in (AnyCoroutineFunc, EndCB, CancelCB)):\n        annotation = resolve_dotted_path\n", "    if annotation in {AnyCoroutineFunc: 1, EndCB: 1, CancelCB: 1}:\n        annotation = resolve_dotted_path\n")], {"C16": "R16.3"})
v("session-lock-around-commands", [(SV, "        self._server: AbstractServer | None = None\n", "        self._server: AbstractServer | None = None\n        self.command_lock: Lock = Lock()\n"), (SV, "from asyncio.exceptions import CancelledError\n", "from asyncio.exceptions import CancelledError\nfrom asyncio.locks import Lock\n"), (SESS, "        if isfunction(command):\n            await self._exec_method_and_respond(command, **kwargs)\n", "        if isfunction(command):\n            async with self._control_server.command_lock:\n                await self._exec_method_and_respond(command, **kwargs)\n")], {"C18": "alarm", "C19": "alarm"})

# ---- batch 16 (rf153-rf160) and round 15
v("P-dispatch-table-of-method-names", [], {"C18": "ok", "C17": "ok"}, base="rf157")
v("dispatch-table-rows-swapped", [(SESS, "    (_is_method_command, \"_exec_method_and_respond\"),\n    (_is_property_command, \"_exec_property_and_respond\"),\n", "    (_is_method_command, \"_exec_property_and_respond\"),\n    (_is_property_command, \"_exec_method_and_respond\"),\n")], {"C17": "alarm"}, base="rf157")
v("P-derived-kwargs-dictionary", [], {"C17": "ok", "C16": "ok"}, base="rf158")
v("derived-kwargs-store-false", [(PA, "                derived_kwargs[\"action\"] = \"store_true\"\n", "                derived_kwargs[\"action\"] = \"store_false\"\n")], {"C17": "R17.3"}, base="rf158")
v("session-parameter-named-like-a-pool-parameter", [(SESS, "        method: Callable[..., Any],\n        **kwargs: Any,\n    ) -> None:\n        \"\"\"\n        Takes a method, executes it", "        func: Callable[..., Any],\n        **kwargs: Any,\n    ) -> None:\n        \"\"\"\n        Takes a method, executes it"), (SESS, "            method.__name__,\n        )\n        normal_pos", "            func.__name__,\n        )\n        normal_pos"), (SESS, "        for param in signature(method).parameters.values():", "        for param in signature(func).parameters.values():"), (SESS, "            method, *normal_pos, *var_pos, **kwargs\n", "            func, *normal_pos, *var_pos, **kwargs\n")], {"C18": "R18.10", "C17": "R17.15"})
v("close-clears-spawner-table-before-waiting", [(P, GAC_WAIT1 + GAC_COLL + GAC_WAIT2, GAC_COLL + "        not_cancelled_meta_tasks = list(not_cancelled_meta_tasks)\n        self._group_meta_tasks_running.clear()\n" + GAC_WAIT1 + GAC_WAIT2)], {"C07": "R07.7", "C08": "alarm"})
# F11 (fixed by 68001df): the iterator over the dictionary of running spawners is taken before the first wait and advanced after it
v("close-collects-before-first-wait", [(P, GAC_WAIT1 + GAC_COLL, GAC_COLL + GAC_WAIT1)], {"C08": "R08.12", "C12": "R12.7", "C04": "ok", "C05": "ok"})
v("close-copies-spawner-sets-before-first-wait", [(P, GAC_WAIT1 + GAC_COLL, GAC_COLL.replace("self._group_meta_tasks_running.values()", "list(self._group_meta_tasks_running.values())") + GAC_WAIT1)], {"C08": "R08.12", "C04": "R04.12", "C05": "R05.14"})
v("close-copies-tasks-before-spawner-wait", [(P, GAC_WAIT1 + GAC_COLL, "        tasks = [*self._tasks_ended.values(), *self._tasks_cancelled.values(), *self._tasks_running.values()]\n" + GAC_WAIT1 + GAC_COLL),
   (P, "            *self._tasks_ended.values(),\n            *self._tasks_cancelled.values(),\n            *self._tasks_running.values(),\n            return_exceptions=return_exceptions,\n        )\n        self._tasks_ended.clear()", "            *tasks,\n            return_exceptions=return_exceptions,\n        )\n        self._tasks_ended.clear()")], {"C08": "viol", "C04": "R04.12"})
v("P-close-lazy-chain-before-first-wait", [(P, GAC_WAIT1 + GAC_COLL, "        not_cancelled_meta_tasks = chain.from_iterable(self._group_meta_tasks_running.values())\n" + GAC_WAIT1),
   (P, "import logging\nimport warnings\n", "import logging\nimport warnings\nfrom itertools import chain\n")], {"C08": "ok", "C12": "ok", "C04": "ok", "C05": "ok"})
v("P-close-collects-inside-the-gather", [(P, GAC_COLL + GAC_WAIT2, "        await gather(\n            *(task for task_set in self._group_meta_tasks_running.values() for task in task_set),\n            return_exceptions=return_exceptions,\n        )\n")], {"C08": "ok", "C12": "ok", "C05": "ok"})
v("ending-shadows-its-task-id", [(P, "        self._enough_room.release()\n        log.info(\"Ended %s\", self._task_name(task_id))\n", "        self._enough_room.release()\n        for task_id in [i for i, t in self._tasks_cancelled.items() if t.done()]:\n            log.debug(\"%s\", task_id)\n        log.info(\"Ended %s\", self._task_name(task_id))\n")], {"C11": "R11.4"})
v("omit-default-is-a-string", [(PA, "OMIT_PARAMS_DEFAULT = (\"self\",)\n", "OMIT_PARAMS_DEFAULT = \"self\"\n")], {"C16": "R16.8", "C17": "R17.10"})
v("dispatch-executors-swapped", [(SESS, "        if isfunction(command):\n            await self._exec_method_and_respond(command, **kwargs)\n        elif isinstance(command, property):\n            await self._exec_property_and_respond(command, **kwargs)\n", "        if isfunction(command):\n            await self._exec_property_and_respond(command, **kwargs)\n        elif isinstance(command, property):\n            await self._exec_method_and_respond(command, **kwargs)\n")], {"C17": "alarm"})
v("function-command-without-description", [(PA, "        subparser_kwargs.setdefault(\"help\", get_first_doc_line(function))\n        subparser_kwargs.setdefault(\"description\", subparser_kwargs[\"help\"])\n", "        subparser_kwargs.setdefault(\"help\", get_first_doc_line(function))\n")], {"C16": "R16.2"})

# ---- round 16 / batch 17
v("P-forget-spawners-helper", [], {"C07": "ok", "C08": "ok", "C10": "ok"}, base="rf162")
v("forget-spawners-helper-not-remembered", [(P, "        self._meta_tasks_cancelled.update(meta_tasks)\n", "")], {"C07": "R07.2"}, base="rf162")
v("P-star-callers-table", [], {"C05": "ok", "C12": "ok"}, base="rf163")
v("star-callers-table-rows-swapped", [(HELPERS, "    (1, _call_star),\n    (2, _call_double_star),\n", "    (1, _call_double_star),\n    (2, _call_star),\n")], {"C05": "R05.1"}, base="rf163")
v("star-caller-drops-the-element", [(HELPERS, "    \"\"\"Calls `function(arg)`.\"\"\"\n    return function(arg)\n", "    \"\"\"Calls `function(arg)`.\"\"\"\n    return function()\n")], {"C05": "R05.1"}, base="rf163")
v("command-word-lower-cased", [(SESS, "            kwargs = vars(self._parser.parse_args(msg.split(\" \")))\n", "            words = msg.split(\" \")\n            words[0] = words[0].lower()\n            kwargs = vars(self._parser.parse_args(words))\n")], {"C16": "R16.9", "C17": "R17.5"})
v("P-words-in-a-local", [(SESS, "            kwargs = vars(self._parser.parse_args(msg.split(\" \")))\n", "            words = msg.split(\" \")\n            kwargs = vars(self._parser.parse_args(words))\n")], {"C16": "ok", "C17": "ok", "C18": "ok"})
v("parser-overrides-parse-args", [(PA, "    def _print_message(self, message: str, *_args: Any, **_kwargs: Any) -> None:\n", "    def parse_args(self, args=None, namespace=None):  # type: ignore[override]\n        if args is not None:\n            args = [a.replace(\"_\", \"-\") if a.startswith(\"--\") else a for a in args]\n        return super().parse_args(args, namespace)\n\n    def _print_message(self, message: str, *_args: Any, **_kwargs: Any) -> None:\n")], {"C17": "R17.12", "C16": "R16.6"})
v("stop-fast-path-truthy-id", [(P, "        ids = []\n        for i, task_id in enumerate(reversed(self._tasks_running)):\n", "        ids = []\n        newest = next(reversed(self._tasks_running), None)\n        if num == 1 and not newest:\n            return []\n        for i, task_id in enumerate(reversed(self._tasks_running)):\n")], {"C14": "R14.1"})
v("close-skips-final-wait-when-nothing-runs", [(P, "        await gather(\n            *self._tasks_ended.values(),\n            *self._tasks_cancelled.values(),\n            *self._tasks_running.values(),\n            return_exceptions=return_exceptions,\n        )\n", "        if self._tasks_running:\n            await gather(\n                *self._tasks_ended.values(),\n                *self._tasks_cancelled.values(),\n                *self._tasks_running.values(),\n                return_exceptions=return_exceptions,\n            )\n")], {"C02": "R02.11", "C08": "viol", "C12": "viol"})
# rf170: the callbacks travel in a NamedTuple unpacked with **rec._asdict() (normaliser: _RecordDicts)
v("P-callbacks-record-asdict", [], {"C04": "ok", "C05": "ok", "C03": "ok", "C12": "ok"}, base="rf170")
v("record-end-callback-not-wrapped", [(P, "            end_callback=self._get_map_end_callback(\n                semaphore, actual_end_callback=end_callback\n            ),\n            cancel_callback=cancel_callback,\n        )\n        acquire_semaphore", "            end_callback=end_callback,\n            cancel_callback=cancel_callback,\n        )\n        self._get_map_end_callback(semaphore, actual_end_callback=end_callback)\n        acquire_semaphore")], {"C05": "viol"}, base="rf170")
v("record-fields-crossed", [(P, "        callbacks = _TaskCallbacks(\n            end_callback=end_callback,\n            cancel_callback=cancel_callback,\n        )\n        coroutine: Coroutine", "        callbacks = _TaskCallbacks(\n            end_callback=cancel_callback,\n            cancel_callback=end_callback,\n        )\n        coroutine: Coroutine")], {"C04": "any", "C03": "viol"}, base="rf170")
v("record-rebound-before-use", [(P, "        coroutine: Coroutine[_R, Any, Any]\n        for iteration in range(num):", "        coroutine: Coroutine[_R, Any, Any]\n        callbacks = _TaskCallbacks(end_callback=None, cancel_callback=None)\n        for iteration in range(num):")], {"C03": "alarm"}, base="rf170")
# a spawner that does not pass the request's callbacks on: they never run
v("apply-spawner-drops-end-callback", [(P, "                    group_name=group_name,\n                    end_callback=end_callback,\n                    cancel_callback=cancel_callback,\n                )\n            except CancelledError:\n                # Either the task group or all tasks were cancelled, so this\n                # meta tasks is not supposed to spawn any more tasks and can\n                # return immediately.\n                log.debug(\n                    \"Cancelled group '%s' after %s out of %s \"", "                    group_name=group_name,\n                    cancel_callback=cancel_callback,\n                )\n            except CancelledError:\n                # Either the task group or all tasks were cancelled, so this\n                # meta tasks is not supposed to spawn any more tasks and can\n                # return immediately.\n                log.debug(\n                    \"Cancelled group '%s' after %s out of %s \"")], {"C03": "viol"})
v("apply-spawner-drops-cancel-callback", [(P, "                    group_name=group_name,\n                    end_callback=end_callback,\n                    cancel_callback=cancel_callback,\n                )\n            except CancelledError:\n                # Either the task group or all tasks were cancelled, so this\n                # meta tasks is not supposed to spawn any more tasks and can\n                # return immediately.\n                log.debug(\n                    \"Cancelled group '%s' after %s out of %s \"", "                    group_name=group_name,\n                    end_callback=end_callback,\n                )\n            except CancelledError:\n                # Either the task group or all tasks were cancelled, so this\n                # meta tasks is not supposed to spawn any more tasks and can\n                # return immediately.\n                log.debug(\n                    \"Cancelled group '%s' after %s out of %s \"")], {"C03": "viol"})
# R00.M, class-body clause: a container created once in a class body and filled through the instance is shared by all instances
_SRVF = "control/server.py"
v("server-connection-count-in-class-body-list", [(_SRVF, "    _client_class: type[ClientT]\n", "    _client_class: type[ClientT]\n    _seen: list = []\n"), (_SRVF, "        session = ControlSession(self, reader, writer)\n", "        session = ControlSession(self, reader, writer)\n        self._seen.append(id(writer))\n")], {"C19": "R00.M", "C16": "R00.M"})
v("P-server-connection-list-per-instance", [(_SRVF, "    _client_class: type[ClientT]\n", "    _client_class: type[ClientT]\n    _seen: list\n"), (_SRVF, "        self._server: AbstractServer | None = None\n", "        self._server: AbstractServer | None = None\n        self._seen = []\n"), (_SRVF, "        session = ControlSession(self, reader, writer)\n", "        session = ControlSession(self, reader, writer)\n        self._seen.append(id(writer))\n")], {"C19": "ok", "C16": "ok"})
# R18.3 (i'): the parser hooks run inside parse_args
v("parser-error-wraps-message-to-client-width", [(PA, "        super().error(message=message)\n", "        import textwrap\n        message = textwrap.fill(message, width=self._terminal_width, max_lines=10)\n        super().error(message=message)\n")], {"C18": "R18.3"})
v("P-parser-error-strips-message", [(PA, "        super().error(message=message)\n", "        message = message.strip()\n        super().error(message=message)\n")], {"C18": "ok", "C17": "ok"})
# rf184: argparse keys and the name 'self' as private module constants (normaliser: _PrivateConsts)
v("P-private-constants-for-keys", [], {"C16": "ok", "C17": "ok", "C18": "ok", "C05": "ok"}, base="rf184")
v("private-constant-type-key-misspelt", [(PA, '_ACTION, _DEFAULT, _NARGS, _TYPE = "action", "default", "nargs", "type"', '_ACTION, _DEFAULT, _NARGS, _TYPE = "action", "default", "nargs", "typ"')], {"C17": "alarm"}, base="rf184")
v("private-constant-self-name-wrong", [(SESS, '_SELF_PARAM = "self"', '_SELF_PARAM = "cls"')], {"C17": "R17.10", "C16": "R16.8"}, base="rf184")
v("private-constant-stars-swapped", [(P, "_SINGLE_STAR: Literal[1] = 1  # `func(*arg)`", "_SINGLE_STAR: Literal[1] = 2  # `func(*arg)`")], {"C05": "viol"}, base="rf184")
# round 18: what a plain callback returns is not awaited; asyncio's predicates; no time-outs on the control connection; blank lines; socket path as given
_HLP = "internals/helpers.py"
v("execute-optional-awaits-what-plain-callbacks-return", [(_HLP, "    return cast(_R, function(*args, **kwargs))\n\n\n@overload\ndef star_function", "    out = function(*args, **kwargs)\n    if hasattr(out, \"__await__\"):\n        out = await out\n    return cast(_R, out)\n\n\n@overload\ndef star_function")], {"C02": "R02.12", "C03": "R03.6", "C08": "R08.13"})
v("P-execute-optional-flag-decided-before-the-call", [], {"C02": "ok", "C03": "ok", "C08": "ok", "C05": "ok"}, base="rf180")
v("pool-uses-inspect-predicates", [(P, "from asyncio.coroutines import iscoroutine, iscoroutinefunction\n", "from inspect import iscoroutine, iscoroutinefunction\n")], {"C04": "R04.13", "C09": "R09.7"})
v("P-pool-imports-predicates-from-asyncio", [(P, "from asyncio.coroutines import iscoroutine, iscoroutinefunction\n", "from asyncio import iscoroutine, iscoroutinefunction\n")], {"C04": "ok", "C09": "ok"})
v("client-gives-up-waiting-for-the-reply", [(CLI, "        print((await reader.read(SESSION_MSG_BYTES)).decode())\n\n    async def start", "        import asyncio\n        try:\n            data = await asyncio.wait_for(reader.read(SESSION_MSG_BYTES), 5)\n        except asyncio.TimeoutError:\n            return\n        print(data.decode())\n\n    async def start")], {"C17": "R17.18", "C18": "R18.12"})
v("client-sends-blank-lines", [(CLI, "        return cmd or None  # will be None if `cmd` is an empty string\n", "        return cmd\n")], {"C19": "R19.11"})
v("P-client-guard-then-return", [], {"C19": "ok"}, base="rf174")
v("client-guard-removed-then-return", [(CLI, "        if not cmd:  # empty string\n            return None\n        return cmd\n", "        return cmd\n")], {"C19": "R19.11"}, base="rf174")
v("unix-server-socket-path-made-absolute", [(SV, "        self._socket_path = Path(socket_path)\n", "        self._socket_path = Path(socket_path).absolute()\n")], {"C16": "R16.10"})
v("P-unix-server-socket-path-through-str", [(SV, "        self._socket_path = Path(socket_path)\n", "        self._socket_path = Path(str(socket_path))\n")], {"C16": "ok", "C19": "ok"})
v("final-callback-forgets-the-server", [(SV, "    def _final_callback(self) -> None:\n        log.debug(\"Closed socket at %s:%s\", self._host, self._port)\n", "    def _final_callback(self) -> None:\n        self._server = None\n        log.debug(\"Closed socket at %s:%s\", self._host, self._port)\n")], {"C18": "R18.11", "C19": "R19.1"})
v("wrapper-ends-bookkeeping-only-for-exceptions", [(P, "            return await awaitable\n", "            result = await awaitable\n"), (P, "            return None\n        finally:\n            await self._task_ending(task_id, custom_callback=end_callback)\n", "            result = None\n        except Exception:\n            await self._task_ending(task_id, custom_callback=end_callback)\n            raise\n        await self._task_ending(task_id, custom_callback=end_callback)\n        return result\n")], {"C14": "R14.5", "C02": "viol"})
v("P-client-conditional-expression-return", [], {"C19": "ok"}, base="rf9")
v("client-returns-command-unless-none", [(CLI, "        return cmd or None  # will be None if `cmd` is an empty string\n", "        return cmd if cmd is not None else None\n")], {"C19": "R19.11"})
v("P-shared-call-and-await-helper", [], {"C02": "ok", "C03": "ok", "C05": "ok", "C08": "ok"}, base="rf80")
v("shared-helper-awaits-by-result", [(_HLP, "    if iscoroutinefunction(function):\n        return await cast(Awaitable[_R], function(*args, **kwargs))\n    return cast(_R, function(*args, **kwargs))\n", "    out = function(*args, **kwargs)\n    if hasattr(out, \"__await__\"):\n        out = await out\n    return cast(_R, out)\n")], {"C03": "viol", "C02": "viol"}, base="rf80")
# round 19: boundaries
v("close-returns-early-for-an-empty-pool", [(P, "        self.lock()\n        # A meta task cancelled before it ever ran", "        self.lock()\n        if not (self._tasks_running or self._tasks_ended or self._tasks_cancelled or self._group_meta_tasks_running or self._meta_tasks_cancelled):\n            return\n        # A meta task cancelled before it ever ran")], {"C08": "R08.1", "C09": "R09.8"})
# (behaviour-preserving, but the order rule does not reason about emptiness guards: it reports the _closed.set() that no wait dominates - a stated limit, see DESIGN.md section 13, round 19)
v("close-sets-closed-early-for-an-empty-pool", [(P, "        self.lock()\n        # A meta task cancelled before it ever ran", "        self.lock()\n        if not (self._tasks_running or self._tasks_ended or self._tasks_cancelled or self._group_meta_tasks_running or self._meta_tasks_cancelled):\n            self._closed.set()\n            return\n        # A meta task cancelled before it ever ran")], {"C09": "any"})
v("group-helper-loop-bounded-by-a-count", [(P, "        while group_reg:\n            try:\n                self._tasks_running[group_reg.pop()].cancel(**cancel_kw)", "        for _ in range(len(group_reg)):\n            try:\n                self._tasks_running[group_reg.pop()].cancel(**cancel_kw)")], {"C07": "R07.2", "C10": "R10.10"})
v("setter-subtracts-occupancy-unclamped", [(P, "        self._enough_room._value = value\n", "        self._enough_room._value = value - len(self._tasks_running)\n")], {"C01": "R01.7"})
v("P-setter-subtracts-occupancy-clamped", [(P, "        self._enough_room._value = value\n", "        self._enough_room._value = max(0, value - len(self._tasks_running))\n")], {"C01": "any"})
v("consumer-clamps-num-concurrent", [(P, "        semaphore = Semaphore(num_concurrent)\n", "        num_concurrent = min(num_concurrent, 64)\n        semaphore = Semaphore(num_concurrent)\n")], {"C05": "R05.3"})
v("apply-spawner-fast-path-outside-the-loop", [(P, "        if kwargs is None:\n            kwargs = {}\n        for i in range(num):", "        if kwargs is None:\n            kwargs = {}\n        if num == 1:\n            coroutine = func(*args, **kwargs)\n            await self._start_task(coroutine, group_name=group_name, end_callback=end_callback, cancel_callback=cancel_callback)\n            return\n        for i in range(num):")], {"C04": "R04.1", "C12": "R12.3"})
# mini round 20
v("cancel-skips-ids-already-cancelled", [(P, "        tasks = [self._get_running_task(task_id) for task_id in task_ids]\n", "        tasks = []\n        for task_id in task_ids:\n            try:\n                tasks.append(self._get_running_task(task_id))\n            except AlreadyCancelled:\n                pass\n")], {"C06": "R06.1"})
v("flush-awaits-cancelled-spawners-one-by-one", [(P, "        await gather(*self._meta_tasks_cancelled, return_exceptions=True)\n        await gather(\n            *self._pop_ended_meta_tasks(),", "        for meta_task in self._meta_tasks_cancelled:\n            await gather(meta_task, return_exceptions=True)\n        await gather(\n            *self._pop_ended_meta_tasks(),")], {"C13": "R13.6", "C12": "R12.8"})
v("P-flush-awaits-a-copy-of-the-cancelled-spawners-one-by-one", [(P, "        await gather(*self._meta_tasks_cancelled, return_exceptions=True)\n        await gather(\n            *self._pop_ended_meta_tasks(),", "        for meta_task in list(self._meta_tasks_cancelled):\n            await gather(meta_task, return_exceptions=True)\n        await gather(\n            *self._pop_ended_meta_tasks(),")], {"C13": "ok", "C12": "ok"})
v("close-loops-over-live-spawner-table", [(P, GAC_COLL + GAC_WAIT2, "        for task_set in self._group_meta_tasks_running.values():\n            await gather(*task_set, return_exceptions=return_exceptions)\n")], {"C08": "R08.14"})
