"""Source normalisation applied to every module before it is analysed: temporaries are folded back.

    t = <E>                      (t: a plain local, bound exactly once in its function, read exactly once)
    [log.<level>(...) ...]       (nothing in between but logging calls that do not mention t)
    <statement reading t in the position that is evaluated first>

becomes the statement with <E> written where t was read.  Evaluation order is unchanged (E was evaluated immediately
before the statement and is now the first thing the statement evaluates), so this is behaviour preserving; it makes
`_c = cond; if _c:`, `_r = expr; return _r`, `_it = xs; for x in _it:`, `_a = f(); await _a`, `_h = g(x); f(_h)`,
`_t = f(); self.d[k] = _t` read like the direct forms the rules are written for.  The moved expression keeps its own
line numbers, so reports still point at the source.  The pinned tree contains no such temporaries: it is unchanged by this pass.
"""
from __future__ import annotations

import ast
from typing import Dict, List, Optional, Tuple

_FUNCS = (ast.FunctionDef, ast.AsyncFunctionDef)


def _own_nodes(fn: ast.AST):
    stack = list(ast.iter_child_nodes(fn))
    while stack:
        n = stack.pop()
        yield n
        if isinstance(n, _FUNCS + (ast.Lambda, ast.ClassDef)):
            # names of nested scopes are not this function's locals - but a read of an outer local inside counts as a use
            for x in ast.walk(n):
                if isinstance(x, ast.Name):
                    yield x
            continue
        stack.extend(ast.iter_child_nodes(n))


def _is_log_stmt(st: ast.stmt, name: str) -> bool:
    if not (isinstance(st, ast.Expr) and isinstance(st.value, ast.Call) and isinstance(st.value.func, ast.Attribute)
            and isinstance(st.value.func.value, ast.Name) and st.value.func.value.id in ("log", "logger", "logging")):
        return False
    return not any(isinstance(x, ast.Name) and x.id == name for x in ast.walk(st))


def _slots(st: ast.stmt) -> List[Tuple[ast.AST, str, Optional[int]]]:
    """The name-reading positions of `st`, in evaluation order, that are reached before anything with an effect is evaluated
    (each is given as (parent, field, index)); an expression placed there is the first effectful thing the statement evaluates."""
    out: List[Tuple[ast.AST, str, Optional[int]]] = []

    def collect(parent: ast.AST, fld: str, idx: Optional[int]) -> bool:
        """appends the slots inside this position; True when the whole position is free of effects (names, attribute chains, constants)"""
        e = getattr(parent, fld)
        if idx is not None:
            e = e[idx]
        if isinstance(e, ast.Name):
            if isinstance(e.ctx, ast.Load):
                out.append((parent, fld, idx))
            return True
        if isinstance(e, ast.Constant):
            return True
        if isinstance(e, ast.Attribute):
            return collect(e, "value", None)
        if isinstance(e, (ast.UnaryOp,)):
            return collect(e, "operand", None)
        if isinstance(e, ast.Starred):
            return collect(e, "value", None)
        if isinstance(e, ast.Await):
            collect(e, "value", None)
            return False
        if isinstance(e, ast.BoolOp):
            collect(e, "values", 0)
            return False  # the other operands are evaluated conditionally
        if isinstance(e, ast.Compare):
            if collect(e, "left", None) and len(e.comparators) == 1:
                collect(e, "comparators", 0)
            return False
        if isinstance(e, ast.BinOp):
            if collect(e, "left", None):
                collect(e, "right", None)
            return False
        if isinstance(e, ast.Subscript):
            if collect(e, "value", None):
                collect(e, "slice", None)
            return False
        if isinstance(e, ast.Call):
            if collect(e, "func", None):
                for i in range(len(e.args)):
                    if not collect(e, "args", i):
                        break
            return False
        if isinstance(e, (ast.Tuple, ast.List)):
            for i in range(len(e.elts)):
                if not collect(e, "elts", i):
                    return False
            return True
        return False

    if isinstance(st, (ast.Return, ast.Expr)) and st.value is not None:
        collect(st, "value", None)
    elif isinstance(st, (ast.Assign, ast.AnnAssign)) and getattr(st, "value", None) is not None:
        collect(st, "value", None)
    elif isinstance(st, ast.If):
        collect(st, "test", None)
    elif isinstance(st, (ast.For, ast.AsyncFor)):
        collect(st, "iter", None)
    elif isinstance(st, ast.Raise) and st.exc is not None:
        collect(st, "exc", None)
    return out


def _pure_chain(e: ast.AST) -> bool:
    while isinstance(e, ast.Attribute):
        e = e.value
    return isinstance(e, ast.Name)


class _Fold(ast.NodeTransformer):
    def __init__(self):
        self.folded = 0

    def _fold_function(self, fn: ast.AST) -> None:
        params = {a.arg for a in fn.args.posonlyargs + fn.args.args + fn.args.kwonlyargs}
        if fn.args.vararg:
            params.add(fn.args.vararg.arg)
        if fn.args.kwarg:
            params.add(fn.args.kwarg.arg)
        stores: Dict[str, int] = {}
        loads: Dict[str, int] = {}
        banned = set(params)
        for n in _own_nodes(fn):
            if isinstance(n, ast.Name):
                if isinstance(n.ctx, ast.Load):
                    loads[n.id] = loads.get(n.id, 0) + 1
                else:
                    stores[n.id] = stores.get(n.id, 0) + 1
            elif isinstance(n, (ast.Global, ast.Nonlocal)):
                banned |= set(n.names)
            elif isinstance(n, ast.ExceptHandler) and n.name:
                banned.add(n.name)
            elif isinstance(n, (ast.AugAssign,)) and isinstance(n.target, ast.Name):
                banned.add(n.target.id)
            elif isinstance(n, ast.NamedExpr) and isinstance(n.target, ast.Name):
                banned.add(n.target.id)
        cands = {nm for nm, c in stores.items() if c == 1 and loads.get(nm, 0) == 1 and nm not in banned}
        if not cands:
            return

        def fold_block(body: List[ast.stmt]) -> List[ast.stmt]:
            changed = True
            while changed:
                changed = False
                for i, st in enumerate(body):
                    if not (isinstance(st, ast.Assign) and len(st.targets) == 1 and isinstance(st.targets[0], ast.Name) and st.targets[0].id in cands) and \
                            not (isinstance(st, ast.AnnAssign) and isinstance(st.target, ast.Name) and st.target.id in cands and st.value is not None):
                        continue
                    name = st.targets[0].id if isinstance(st, ast.Assign) else st.target.id
                    val = st.value
                    if any(isinstance(x, (ast.Yield, ast.YieldFrom, ast.Lambda, ast.NamedExpr)) for x in ast.walk(val)):
                        continue
                    j = i + 1
                    while j < len(body) and _is_log_stmt(body[j], name):
                        j += 1
                    if j >= len(body):
                        continue
                    slot = None
                    for parent, fld, idx in _slots(body[j]):
                        cur = getattr(parent, fld) if idx is None else getattr(parent, fld)[idx]
                        if isinstance(cur, ast.Name) and cur.id == name:
                            slot = (parent, fld, idx)
                            break
                    if slot is None:
                        continue
                    parent, fld, idx = slot
                    if j > i + 1 and any(isinstance(x, (ast.Await, ast.Call)) for x in ast.walk(val)):
                        continue  # with logging in between only a side-effect free value may move
                    if idx is None:
                        setattr(parent, fld, val)
                    else:
                        getattr(parent, fld)[idx] = val
                    del body[i]
                    cands.discard(name)
                    self.folded += 1
                    changed = True
                    break
            return body

        def walk(node: ast.AST) -> None:
            for fld in ("body", "orelse", "finalbody"):
                b = getattr(node, fld, None)
                if isinstance(b, list) and b and isinstance(b[0], ast.stmt):
                    for st in list(b):
                        if not isinstance(st, _FUNCS + (ast.ClassDef,)):
                            walk(st)
                    fold_block(b)
            for h in getattr(node, "handlers", []) or []:
                walk(h)
            if isinstance(node, ast.With) or isinstance(node, ast.AsyncWith):
                pass

        walk(fn)

    def visit_FunctionDef(self, node):
        self.generic_visit(node)
        self._fold_function(node)
        return node

    visit_AsyncFunctionDef = visit_FunctionDef


def normalise(tree: ast.Module) -> ast.Module:
    f = _Fold()
    f.visit(tree)
    tree._tpsa_folded = f.folded  # type: ignore[attr-defined]
    return tree
