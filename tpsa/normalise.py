"""Source normalisation applied to every module before it is analysed: temporaries are folded back.

    t = <E>                      (t: a plain local, bound exactly once in its function, read exactly once)
    [log.<level>(...) ...]       (nothing in between but logging calls that do not mention t)
    <statement reading t in the position that is evaluated first>

becomes the statement with <E> written where t was read.  Evaluation order is unchanged (E was evaluated immediately
before the statement and is now the first thing the statement evaluates), so this is behaviour preserving; it makes
`_c = cond; if _c:`, `_r = expr; return _r`, `_it = xs; for x in _it:`, `_a = f(); await _a`, `_h = g(x); f(_h)`,
`_t = f(); self.d[k] = _t` read like the direct forms the rules are written for.  The moved expression keeps its own
line numbers, so reports still point at the source.  The pinned tree contains no such temporaries: it is unchanged by this pass.
"""
from __future__ import annotations

import ast
from typing import Dict, List, Optional, Tuple

_FUNCS = (ast.FunctionDef, ast.AsyncFunctionDef)


def _own_nodes(fn: ast.AST):
    stack = list(ast.iter_child_nodes(fn))
    while stack:
        n = stack.pop()
        yield n
        if isinstance(n, _FUNCS + (ast.Lambda, ast.ClassDef)):
            # names of nested scopes are not this function's locals - but a read of an outer local inside counts as a use
            for x in ast.walk(n):
                if isinstance(x, ast.Name):
                    yield x
            continue
        stack.extend(ast.iter_child_nodes(n))


def _is_log_stmt(st: ast.stmt, name: str) -> bool:
    if not (isinstance(st, ast.Expr) and isinstance(st.value, ast.Call) and isinstance(st.value.func, ast.Attribute)
            and isinstance(st.value.func.value, ast.Name) and st.value.func.value.id in ("log", "logger", "logging")):
        return False
    return not any(isinstance(x, ast.Name) and x.id == name for x in ast.walk(st))


def _slots(st: ast.stmt) -> List[Tuple[ast.AST, str, Optional[int]]]:
    """The name-reading positions of `st`, in evaluation order, that are reached before anything with an effect is evaluated
    (each is given as (parent, field, index)); an expression placed there is the first effectful thing the statement evaluates."""
    out: List[Tuple[ast.AST, str, Optional[int]]] = []

    def collect(parent: ast.AST, fld: str, idx: Optional[int]) -> bool:
        """appends the slots inside this position; True when the whole position is free of effects (names, attribute chains, constants)"""
        e = getattr(parent, fld)
        if idx is not None:
            e = e[idx]
        if isinstance(e, ast.Name):
            if isinstance(e.ctx, ast.Load):
                out.append((parent, fld, idx))
            return True
        if isinstance(e, ast.Constant):
            return True
        if isinstance(e, ast.Attribute):
            return collect(e, "value", None)
        if isinstance(e, (ast.UnaryOp,)):
            return collect(e, "operand", None)
        if isinstance(e, ast.Starred):
            return collect(e, "value", None)
        if isinstance(e, ast.Await):
            collect(e, "value", None)
            return False
        if isinstance(e, ast.BoolOp):
            collect(e, "values", 0)
            return False  # the other operands are evaluated conditionally
        if isinstance(e, ast.Compare):
            if collect(e, "left", None) and len(e.comparators) == 1:
                collect(e, "comparators", 0)
            return False
        if isinstance(e, ast.BinOp):
            if collect(e, "left", None):
                collect(e, "right", None)
            return False
        if isinstance(e, ast.Subscript):
            if collect(e, "value", None):
                collect(e, "slice", None)
            return False
        if isinstance(e, ast.Call):
            if collect(e, "func", None):
                for i in range(len(e.args)):
                    if not collect(e, "args", i):
                        break
            return False
        if isinstance(e, (ast.Tuple, ast.List)):
            for i in range(len(e.elts)):
                if not collect(e, "elts", i):
                    return False
            return True
        return False

    if isinstance(st, (ast.Return, ast.Expr)) and st.value is not None:
        collect(st, "value", None)
    elif isinstance(st, (ast.Assign, ast.AnnAssign)) and getattr(st, "value", None) is not None:
        collect(st, "value", None)
    elif isinstance(st, ast.If):
        collect(st, "test", None)
    elif isinstance(st, (ast.For, ast.AsyncFor)):
        collect(st, "iter", None)
    elif isinstance(st, ast.Raise) and st.exc is not None:
        collect(st, "exc", None)
    return out


def _pure_chain(e: ast.AST) -> bool:
    while isinstance(e, ast.Attribute):
        e = e.value
    return isinstance(e, ast.Name)


class _Fold(ast.NodeTransformer):
    def __init__(self):
        self.folded = 0

    def _fold_function(self, fn: ast.AST) -> None:
        params = {a.arg for a in fn.args.posonlyargs + fn.args.args + fn.args.kwonlyargs}
        if fn.args.vararg:
            params.add(fn.args.vararg.arg)
        if fn.args.kwarg:
            params.add(fn.args.kwarg.arg)
        stores: Dict[str, int] = {}
        loads: Dict[str, int] = {}
        banned = set(params)
        for n in _own_nodes(fn):
            if isinstance(n, ast.Name):
                if isinstance(n.ctx, ast.Load):
                    loads[n.id] = loads.get(n.id, 0) + 1
                else:
                    stores[n.id] = stores.get(n.id, 0) + 1
            elif isinstance(n, (ast.Global, ast.Nonlocal)):
                banned |= set(n.names)
            elif isinstance(n, ast.ExceptHandler) and n.name:
                banned.add(n.name)
            elif isinstance(n, (ast.AugAssign,)) and isinstance(n.target, ast.Name):
                banned.add(n.target.id)
            elif isinstance(n, ast.NamedExpr) and isinstance(n.target, ast.Name):
                banned.add(n.target.id)
        # (a bare declaration `x: T` binds nothing)
        for n in _own_nodes(fn):
            if isinstance(n, ast.AnnAssign) and n.value is None and isinstance(n.target, ast.Name):
                stores[n.target.id] = stores.get(n.target.id, 0) - 1
        cands = {nm for nm, c in stores.items() if c == 1 and loads.get(nm, 0) == 1 and nm not in banned}
        # a local bound k times and read k times, every binding immediately followed by the statement that reads it (e.g. after
        # a trailing statement was sunk into the arms of an if): folded pair by pair, all or none
        multi = {nm for nm, c in stores.items() if c > 1 and loads.get(nm, 0) == c and nm not in banned}
        if multi:
            pairs: Dict[str, int] = {}

            def scan(node: ast.AST) -> None:
                for fld in ("body", "orelse", "finalbody"):
                    b = getattr(node, fld, None)
                    if isinstance(b, list) and b and isinstance(b[0], ast.stmt):
                        for i, st in enumerate(b):
                            tgt_ = st.targets[0] if isinstance(st, ast.Assign) and len(st.targets) == 1 else \
                                (st.target if isinstance(st, ast.AnnAssign) and st.value is not None else None)
                            if isinstance(tgt_, ast.Name) and tgt_.id in multi \
                                    and i + 1 < len(b) and not any(isinstance(x, (ast.Yield, ast.YieldFrom, ast.Lambda, ast.NamedExpr)) for x in ast.walk(st.value)):
                                nm = tgt_.id
                                for parent, fld2, idx in _slots(b[i + 1]):
                                    cur = getattr(parent, fld2) if idx is None else getattr(parent, fld2)[idx]
                                    if isinstance(cur, ast.Name) and cur.id == nm:
                                        pairs[nm] = pairs.get(nm, 0) + 1
                                        break
                            if not isinstance(st, _FUNCS + (ast.ClassDef,)):
                                scan(st)
                for h in getattr(node, "handlers", []) or []:
                    scan(h)

            scan(fn)
            cands |= {nm for nm in multi if pairs.get(nm, 0) == stores[nm]}
        multi_ok = set(cands) & multi if multi else set()
        if not cands:
            return

        def fold_block(body: List[ast.stmt]) -> List[ast.stmt]:
            changed = True
            while changed:
                changed = False
                for i, st in enumerate(body):
                    if not (isinstance(st, ast.Assign) and len(st.targets) == 1 and isinstance(st.targets[0], ast.Name) and st.targets[0].id in cands) and \
                            not (isinstance(st, ast.AnnAssign) and isinstance(st.target, ast.Name) and st.target.id in cands and st.value is not None):
                        continue
                    name = st.targets[0].id if isinstance(st, ast.Assign) else st.target.id
                    val = st.value
                    if any(isinstance(x, (ast.Yield, ast.YieldFrom, ast.Lambda, ast.NamedExpr)) for x in ast.walk(val)):
                        continue
                    j = i + 1
                    while j < len(body) and _is_log_stmt(body[j], name):
                        j += 1
                    if j >= len(body):
                        continue
                    slot = None
                    for parent, fld, idx in _slots(body[j]):
                        cur = getattr(parent, fld) if idx is None else getattr(parent, fld)[idx]
                        if isinstance(cur, ast.Name) and cur.id == name:
                            slot = (parent, fld, idx)
                            break
                    if slot is None:
                        continue
                    parent, fld, idx = slot
                    if j > i + 1 and any(isinstance(x, (ast.Await, ast.Call)) for x in ast.walk(val)):
                        continue  # with logging in between only a side-effect free value may move
                    if idx is None:
                        setattr(parent, fld, val)
                    else:
                        getattr(parent, fld)[idx] = val
                    del body[i]
                    if name not in multi_ok:
                        cands.discard(name)
                    self.folded += 1
                    changed = True
                    break
            return body

        def walk(node: ast.AST) -> None:
            for fld in ("body", "orelse", "finalbody"):
                b = getattr(node, fld, None)
                if isinstance(b, list) and b and isinstance(b[0], ast.stmt):
                    for st in list(b):
                        if not isinstance(st, _FUNCS + (ast.ClassDef,)):
                            walk(st)
                    fold_block(b)
            for h in getattr(node, "handlers", []) or []:
                walk(h)
            if isinstance(node, ast.With) or isinstance(node, ast.AsyncWith):
                pass

        walk(fn)

    def visit_FunctionDef(self, node):
        self.generic_visit(node)
        self._fold_function(node)
        return node

    visit_AsyncFunctionDef = visit_FunctionDef


def _pure(e: ast.AST) -> bool:
    if isinstance(e, (ast.Name, ast.Constant)):
        return True
    if isinstance(e, ast.Attribute):
        return _pure(e.value)
    if isinstance(e, (ast.Tuple, ast.List)):
        return all(_pure(x) for x in e.elts)
    if isinstance(e, ast.Dict):
        return all(isinstance(k, ast.Constant) for k in e.keys) and all(_pure(x) for x in e.values)
    if isinstance(e, ast.BoolOp):
        return all(_pure(x) for x in e.values)  # `self._name or self._idx`: reads only
    return False


class _ConstMethods(ast.NodeTransformer):
    """`self.m()` where m is a method of the same class whose whole body is `return <display of pure expressions>` (no
    parameters but self): the call is replaced by that display (table-returning helpers: dispatch tables, lists of registries)."""
    def __init__(self, tree: Optional[ast.AST] = None):
        self.inlined = 0
        # a method defined in more than one class of the module may be overridden: `self.m()` is then not known statically
        self.defined: Dict[str, int] = {}
        for c in ast.walk(tree) if tree is not None else []:
            if isinstance(c, ast.ClassDef):
                for st in c.body:
                    if isinstance(st, _FUNCS):
                        self.defined[st.name] = self.defined.get(st.name, 0) + 1

    def visit_ClassDef(self, node: ast.ClassDef):
        self.generic_visit(node)
        consts: Dict[str, ast.AST] = {}
        props: Dict[str, ast.AST] = {}
        tables: Dict[str, Tuple[List[str], ast.AST]] = {}
        for st in node.body:
            if isinstance(st, ast.FunctionDef) and len(st.decorator_list) == 1 and isinstance(st.decorator_list[0], ast.Name) and st.decorator_list[0].id == "property" \
                    and len(st.args.args) == 1 and not (st.args.vararg or st.args.kwarg or st.args.kwonlyargs or st.args.posonlyargs) \
                    and self.defined.get(st.name, 0) == 1 and st.name.startswith("_"):
                # a private read-only property whose whole body is `return <display of pure expressions>` (no setter: defined once)
                body = [b for b in st.body if not (isinstance(b, ast.Expr) and isinstance(b.value, ast.Constant))]
                if len(body) == 1 and isinstance(body[0], ast.Return) and isinstance(body[0].value, (ast.Tuple, ast.List, ast.Dict)) and _pure(body[0].value) \
                        and (body[0].value.elts if not isinstance(body[0].value, ast.Dict) else body[0].value.keys):
                    props[st.name] = (st.args.args[0].arg, body[0].value)
            if isinstance(st, ast.FunctionDef) and not st.decorator_list and len(st.args.args) == 1 and not (st.args.vararg or st.args.kwarg or st.args.kwonlyargs or st.args.posonlyargs):
                body = [b for b in st.body if not (isinstance(b, ast.Expr) and isinstance(b.value, ast.Constant))]
                if len(body) == 1 and isinstance(body[0], ast.Return) and isinstance(body[0].value, (ast.Tuple, ast.List)) and body[0].value.elts and _pure(body[0].value):
                    names = {x.id for x in ast.walk(body[0].value) if isinstance(x, ast.Name)}
                    if self.defined.get(st.name, 0) == 1 and st.name.startswith("_"):
                        consts[st.name] = (st.args.args[0].arg, body[0].value)
            elif isinstance(st, ast.FunctionDef) and not st.decorator_list and len(st.args.args) >= 2 and not (st.args.vararg or st.args.kwarg or st.args.kwonlyargs or st.args.posonlyargs) \
                    and not st.args.defaults and self.defined.get(st.name, 0) == 1 and st.name.startswith("_"):
                # a private method with parameters whose whole body is `return <display of pure expressions>` (option tables built
                # from the arguments: `{"group_name": group_name, "end_callback": self._end_callback}`)
                body = [b for b in st.body if not (isinstance(b, ast.Expr) and isinstance(b.value, ast.Constant))]
                if len(body) == 1 and isinstance(body[0], ast.Return) and isinstance(body[0].value, (ast.Tuple, ast.List, ast.Dict)) and _pure(body[0].value) \
                        and (body[0].value.elts if not isinstance(body[0].value, ast.Dict) else body[0].value.keys):
                    tables[st.name] = ([a.arg for a in st.args.args], body[0].value)
        if not consts and not props and not tables:
            return node
        import copy
        outer = self

        class Repl(ast.NodeTransformer):
            def __init__(self, selfname):
                self.selfname = selfname

            def visit_Call(self, c: ast.Call):
                self.generic_visit(c)
                if isinstance(c.func, ast.Attribute) and isinstance(c.func.value, ast.Name) and c.func.value.id == self.selfname and c.func.attr in consts \
                        and not c.args and not c.keywords:
                    pself, disp = consts[c.func.attr]
                    new = copy.deepcopy(disp)
                    if pself != self.selfname:
                        for x in ast.walk(new):
                            if isinstance(x, ast.Name) and x.id == pself:
                                x.id = self.selfname
                    outer.inlined += 1
                    return ast.copy_location(new, c)
                if isinstance(c.func, ast.Attribute) and isinstance(c.func.value, ast.Name) and c.func.value.id == self.selfname and c.func.attr in tables \
                        and not any(isinstance(a_, ast.Starred) for a_ in c.args) and all(k.arg is not None for k in c.keywords):
                    params, disp = tables[c.func.attr]
                    pself, rest = params[0], params[1:]
                    bound: Dict[str, ast.AST] = dict(zip(rest, c.args))
                    for k in c.keywords:
                        if k.arg in bound or k.arg not in rest:
                            return c
                        bound[k.arg] = k.value
                    # every argument a pure read (written where the parameter stood, possibly more than once or never)
                    if len(c.args) > len(rest) or set(bound) != set(rest) or not all(_pure(v) and not isinstance(v, (ast.Tuple, ast.List, ast.Dict)) for v in bound.values()):
                        return c

                    class Sub(ast.NodeTransformer):
                        def visit_Name(self_, n: ast.Name):
                            if n.id in bound:
                                return ast.copy_location(copy.deepcopy(bound[n.id]), n)
                            if n.id == pself:
                                return ast.copy_location(ast.Name(id=self.selfname, ctx=ast.Load()), n)
                            return n

                    new = Sub().visit(copy.deepcopy(disp))
                    outer.inlined += 1
                    return ast.copy_location(new, c)
                return c

            def visit_Attribute(self, a: ast.Attribute):
                self.generic_visit(a)
                if isinstance(a.ctx, ast.Load) and isinstance(a.value, ast.Name) and a.value.id == self.selfname and a.attr in props:
                    pself, disp = props[a.attr]
                    new = copy.deepcopy(disp)
                    if pself != self.selfname:
                        for x in ast.walk(new):
                            if isinstance(x, ast.Name) and x.id == pself:
                                x.id = self.selfname
                    outer.inlined += 1
                    return ast.copy_location(new, a)
                return a

        for st in node.body:
            if isinstance(st, _FUNCS) and st.args.args and st.name not in consts and st.name not in props and st.name not in tables:
                Repl(st.args.args[0].arg).visit(st)
        return node


class _PrivateProps:
    """A private property (`@property def _x(self)`, defined once in the module, no deleter, every access in the module a read
    of `<self>._x` inside a method) is written as the plain method it is: the decorator is dropped and every read becomes the call
    `<self>._x()`.  Reading a property IS calling its getter; spelled as a call, the getter is followed like any other helper.
    A setter (`@_x.setter def _x(self, value)`) is treated the same way: it becomes the method `_x__set` and every plain
    assignment `<self>._x = V` the call `<self>._x__set(V)` (any other kind of store - augmented, tuple target, del - leaves the
    property alone).  The pinned tree has no private properties: it is unchanged by this pass."""
    def __init__(self):
        self.converted: List[str] = []

    def visit(self, tree: ast.Module) -> None:
        counts: Dict[str, int] = {}
        for n in ast.walk(tree):
            if isinstance(n, _FUNCS):
                counts[n.name] = counts.get(n.name, 0) + 1
        cands: Dict[str, ast.FunctionDef] = {}
        setters: Dict[str, ast.FunctionDef] = {}
        for c in ast.walk(tree):
            if not isinstance(c, ast.ClassDef):
                continue
            for st in c.body:
                if isinstance(st, ast.FunctionDef) and st.name.startswith("_") and not st.name.startswith("__") and counts.get(st.name) in (1, 2) \
                        and len(st.decorator_list) == 1 and isinstance(st.decorator_list[0], ast.Name) and st.decorator_list[0].id == "property" \
                        and len(st.args.args) == 1 and not (st.args.vararg or st.args.kwarg or st.args.kwonlyargs or st.args.posonlyargs):
                    if counts[st.name] == 2:
                        # the second definition must be this property's setter, in the same class
                        sets = [x for x in c.body if isinstance(x, ast.FunctionDef) and x is not st and x.name == st.name and len(x.decorator_list) == 1
                                and isinstance(x.decorator_list[0], ast.Attribute) and x.decorator_list[0].attr == "setter"
                                and isinstance(x.decorator_list[0].value, ast.Name) and x.decorator_list[0].value.id == st.name
                                and len(x.args.args) == 2 and not (x.args.vararg or x.args.kwarg or x.args.kwonlyargs or x.args.posonlyargs or x.args.defaults)]
                        if len(sets) != 1 or (st.name + "__set") in counts:
                            continue
                        setters[st.name] = sets[0]
                    cands[st.name] = st
        if not cands:
            return
        stores: Dict[str, List[ast.Attribute]] = {k: [] for k in cands}
        # every mention of the name must be a read on the `self` of an enclosing method
        uses: Dict[str, List[ast.Attribute]] = {k: [] for k in cands}
        bad: set = set()

        def scan(node: ast.AST, selfname: Optional[str]) -> None:
            for ch in ast.iter_child_nodes(node):
                if isinstance(ch, _FUNCS):
                    own = ch.args.args[0].arg if ch.args.args and not any(isinstance(d, ast.Name) and d.id == "staticmethod" for d in ch.decorator_list) else None
                    for d in ch.decorator_list:
                        if ch is not setters.get(ch.name):
                            scan_stmt(d, selfname)
                    for b in ch.body:
                        scan_stmt(b, own if own is not None else selfname)
                    continue
                scan_stmt(ch, selfname)

        def scan_stmt(node: ast.AST, selfname: Optional[str]) -> None:
            if isinstance(node, ast.Attribute) and node.attr in cands:
                if isinstance(node.ctx, ast.Load) and isinstance(node.value, ast.Name) and selfname is not None and node.value.id == selfname:
                    uses[node.attr].append(node)
                elif isinstance(node.ctx, ast.Store) and node.attr in setters and isinstance(node.value, ast.Name) and selfname is not None \
                        and node.value.id == selfname:
                    stores[node.attr].append(node)
                else:
                    bad.add(node.attr)
            if isinstance(node, ast.Constant) and node.value in cands:
                bad.add(node.value)
            if isinstance(node, ast.Name) and node.id in cands:
                bad.add(node.id)
            scan(node, selfname)

        scan(tree, None)
        parent: Dict[int, Tuple[ast.AST, str, Optional[int]]] = {}
        for n in ast.walk(tree):
            for fld, val in ast.iter_fields(n):
                if isinstance(val, ast.AST):
                    parent[id(val)] = (n, fld, None)
                elif isinstance(val, list):
                    for i, v in enumerate(val):
                        if isinstance(v, ast.AST):
                            parent[id(v)] = (n, fld, i)
        # (0) alias properties: the getter is `return <self>.a.b` and the setter (if any) `<self>.a.b = <value>`: the property is just
        #     another spelling of that attribute chain - every access on `self`, whatever its kind (read, store, augmented store),
        #     is written as the chain itself, which is what the property would have evaluated
        def _chain(e: ast.AST, root: str) -> Optional[List[str]]:
            parts: List[str] = []
            while isinstance(e, ast.Attribute):
                parts.append(e.attr)
                e = e.value
            return list(reversed(parts)) if isinstance(e, ast.Name) and e.id == root and parts else None

        def _body(fn: ast.FunctionDef) -> List[ast.stmt]:
            return [b for b in fn.body if not (isinstance(b, ast.Expr) and isinstance(b.value, ast.Constant) and isinstance(b.value.value, str))]

        for name, fn in list(cands.items()):
            gb = _body(fn)
            if len(gb) != 1 or not isinstance(gb[0], ast.Return) or gb[0].value is None:
                continue
            chain = _chain(gb[0].value, fn.args.args[0].arg)
            if chain is None or any(c in counts for c in chain) or name in chain:
                continue
            st_fn = setters.get(name)
            if st_fn is not None:
                sb = _body(st_fn)
                if not (len(sb) == 1 and isinstance(sb[0], ast.Assign) and len(sb[0].targets) == 1 and isinstance(sb[0].value, ast.Name)
                        and sb[0].value.id == st_fn.args.args[1].arg and _chain(sb[0].targets[0], st_fn.args.args[0].arg) == chain):
                    continue
            # every mention must be an access on the enclosing method's self; without a setter only reads
            sites: List[Tuple[ast.Attribute, str]] = []
            ok_alias = True

            def scan_alias(node: ast.AST, selfname: Optional[str]) -> None:
                nonlocal ok_alias
                for ch in ast.iter_child_nodes(node):
                    if ch is fn or ch is st_fn:
                        continue
                    own = selfname
                    if isinstance(ch, _FUNCS):
                        own = ch.args.args[0].arg if ch.args.args and not any(isinstance(d, ast.Name) and d.id == "staticmethod" for d in ch.decorator_list) else selfname
                    if isinstance(ch, ast.Attribute) and ch.attr == name:
                        if isinstance(ch.value, ast.Name) and selfname is not None and ch.value.id == selfname and (st_fn is not None or isinstance(ch.ctx, ast.Load)) \
                                and not isinstance(ch.ctx, ast.Del):
                            sites.append((ch, selfname))
                        else:
                            ok_alias = False
                    if isinstance(ch, ast.Constant) and ch.value == name:
                        ok_alias = False
                    if isinstance(ch, ast.Name) and ch.id == name:
                        ok_alias = False
                    scan_alias(ch, own)

            scan_alias(tree, None)
            if not ok_alias or not sites:
                continue
            for a, root in sites:
                e: ast.expr = ast.copy_location(ast.Name(id=root, ctx=ast.Load()), a)
                for part in chain[:-1]:
                    e = ast.copy_location(ast.Attribute(value=e, attr=part, ctx=ast.Load()), a)
                a.value = e
                a.attr = chain[-1]
            for c in ast.walk(tree):
                if isinstance(c, ast.ClassDef):
                    c.body = [x for x in c.body if x is not fn and x is not st_fn] or [ast.Pass()]
            self.converted.append(name)
            del cands[name]
            setters.pop(name, None)
        if not cands:
            return
        for name in list(setters):
            # a store is converted only as the single target of a plain assignment statement
            for a in stores[name]:
                par, fld, i = parent[id(a)]
                if not (isinstance(par, ast.Assign) and fld == "targets" and len(par.targets) == 1 and id(par) in parent and parent[id(par)][2] is not None):
                    bad.add(name)
        for name, fn in cands.items():
            if name in bad or not (uses[name] or stores[name]):
                continue
            fn.decorator_list = []
            if name in setters:
                setters[name].decorator_list = []
                setters[name].name = name + "__set"
                for a in stores[name]:
                    asg = parent[id(a)][0]
                    tgt = ast.copy_location(ast.Attribute(value=a.value, attr=name + "__set", ctx=ast.Load()), a)
                    call = ast.copy_location(ast.Expr(value=ast.copy_location(ast.Call(func=tgt, args=[asg.value], keywords=[]), asg)), asg)
                    par, fld, i = parent[id(asg)]
                    getattr(par, fld)[i] = call
            for a in uses[name]:
                call = ast.copy_location(ast.Call(func=a, args=[], keywords=[]), a)
                par, fld, i = parent[id(a)]
                if i is None:
                    setattr(par, fld, call)
                else:
                    getattr(par, fld)[i] = call
            self.converted.append(name)


class _SplitPairs(ast.NodeTransformer):
    """`a, b = X, Y` with plain-name targets and pure right-hand elements (names, attribute chains, constants, displays of those)
    that mention none of the targets -> `a = X; b = Y`: the same reads in the same order, then the same bindings."""
    def __init__(self):
        self.split = 0

    def _block(self, body: List[ast.stmt]) -> List[ast.stmt]:
        out: List[ast.stmt] = []
        for st in body:
            if isinstance(st, ast.Assign) and len(st.targets) == 1 and isinstance(st.targets[0], ast.Tuple) and isinstance(st.value, ast.Tuple) \
                    and len(st.targets[0].elts) == len(st.value.elts) >= 2 and all(isinstance(t, ast.Name) for t in st.targets[0].elts) \
                    and all(_pure(v) and not isinstance(v, ast.Starred) for v in st.value.elts):
                names = {t.id for t in st.targets[0].elts}
                if len(names) == len(st.targets[0].elts) and not any(isinstance(x, ast.Name) and x.id in names for v in st.value.elts for x in ast.walk(v)):
                    for t, v in zip(st.targets[0].elts, st.value.elts):
                        out.append(ast.copy_location(ast.Assign(targets=[t], value=v), st))
                    self.split += 1
                    continue
            out.append(st)
        return out

    def generic_visit(self, node):
        super().generic_visit(node)
        for fld in ("body", "orelse", "finalbody"):
            sub = getattr(node, fld, None)
            if isinstance(sub, list) and sub and isinstance(sub[0], ast.stmt):
                setattr(node, fld, self._block(sub))
        return node


class _StarDisplays(ast.NodeTransformer):
    """`f(x, **{"a": A, "b": B})` -> `f(x, a=A, b=B)` (keys constant identifiers, not repeated among the call's keywords) and
    `f(*[A, B])` / `f(*(A, B))` -> `f(A, B)`: same values, same evaluation order."""
    def visit_Call(self, c: ast.Call):
        self.generic_visit(c)
        kws: List[ast.keyword] = []
        for k in c.keywords:
            if k.arg is None and isinstance(k.value, ast.Dict) and k.value.keys and all(isinstance(x, ast.Constant) and isinstance(x.value, str) and x.value.isidentifier() for x in k.value.keys):
                kws += [ast.copy_location(ast.keyword(arg=x.value, value=v), k.value) for x, v in zip(k.value.keys, k.value.values)]
            else:
                kws.append(k)
        names = [k.arg for k in kws if k.arg is not None]
        if len(names) == len(set(names)):
            c.keywords = kws
        args: List[ast.expr] = []
        for a in c.args:
            if isinstance(a, ast.Starred) and isinstance(a.value, (ast.List, ast.Tuple)) and not any(isinstance(x, ast.Starred) for x in a.value.elts):
                args += list(a.value.elts)
            else:
                args.append(a)
        c.args = args
        return c


class _PrivateConsts:
    """A private module-level name (`_TYPE = "type"`, `_KEYS: Final = ...`, also as an element of a tuple assignment of literals) bound
    exactly once in the module to a literal of an immutable type (str, bytes, int, float, bool, None), never declared global and never
    stored to in any function, is replaced by the literal wherever it is read in a scope that does not bind the name itself."""
    def __init__(self):
        self.inlined: Dict[str, int] = {}

    def visit(self, tree: ast.Module) -> None:
        cands: Dict[str, ast.Constant] = {}
        count: Dict[str, int] = {}

        def note(name: str, val: Optional[ast.AST]) -> None:
            count[name] = count.get(name, 0) + 1
            if isinstance(val, ast.Constant) and isinstance(val.value, (str, bytes, int, float, bool, type(None))) and name.startswith("_") and not name.startswith("__"):
                cands[name] = val

        for st in tree.body:
            if isinstance(st, ast.Assign):
                for t in st.targets:
                    if isinstance(t, ast.Name):
                        note(t.id, st.value)
                    elif isinstance(t, (ast.Tuple, ast.List)):
                        if isinstance(st.value, (ast.Tuple, ast.List)) and len(st.value.elts) == len(t.elts) and all(isinstance(e, ast.Name) for e in t.elts):
                            for e, v in zip(t.elts, st.value.elts):
                                note(e.id, v)
                        else:
                            for e in ast.walk(t):
                                if isinstance(e, ast.Name):
                                    note(e.id, None)
            elif isinstance(st, ast.AnnAssign) and isinstance(st.target, ast.Name):
                note(st.target.id, st.value)
            elif isinstance(st, (ast.AugAssign,)) and isinstance(st.target, ast.Name):
                note(st.target.id, None)
                note(st.target.id, None)
            elif not isinstance(st, (ast.FunctionDef, ast.AsyncFunctionDef, ast.ClassDef, ast.Import, ast.ImportFrom, ast.Expr)):
                for e in ast.walk(st):
                    if isinstance(e, ast.Name) and isinstance(e.ctx, (ast.Store, ast.Del)):
                        note(e.id, None)
                        note(e.id, None)
        names = {n for n, v in cands.items() if count.get(n) == 1}
        if not names:
            return
        # stored to / declared global / imported anywhere below module level: not a constant we can speak for
        for fn in [x for x in ast.walk(tree) if isinstance(x, (ast.FunctionDef, ast.AsyncFunctionDef, ast.Lambda, ast.ClassDef))]:
            for x in ast.walk(fn):
                if isinstance(x, (ast.Global, ast.Nonlocal)):
                    names -= set(x.names)
        if not names:
            return

        def bound_in(scope: ast.AST) -> set:
            out = set()
            if isinstance(scope, (ast.FunctionDef, ast.AsyncFunctionDef, ast.Lambda)):
                a = scope.args
                out |= {p.arg for p in a.args + a.kwonlyargs + a.posonlyargs}
                if a.vararg:
                    out.add(a.vararg.arg)
                if a.kwarg:
                    out.add(a.kwarg.arg)
            body = scope.body if isinstance(scope.body, list) else [scope.body]
            stack = list(body)
            while stack:
                x = stack.pop()
                if isinstance(x, ast.Name) and isinstance(x.ctx, (ast.Store, ast.Del)):
                    out.add(x.id)
                elif isinstance(x, (ast.FunctionDef, ast.AsyncFunctionDef, ast.ClassDef)):
                    out.add(x.name)
                    continue
                elif isinstance(x, ast.Lambda):
                    continue
                elif isinstance(x, (ast.Import, ast.ImportFrom)):
                    out |= {(a.asname or a.name.split(".")[0]) for a in x.names}
                elif isinstance(x, ast.ExceptHandler) and x.name:
                    out.add(x.name)
                stack.extend(ast.iter_child_nodes(x))
            return out

        outer = self

        class Sub(ast.NodeTransformer):
            def __init__(self, shadow: set):
                self.shadow = shadow

            def _scope(self, node):
                sh = self.shadow | (bound_in(node) & names)
                sub = Sub(sh)
                for fld, val in ast.iter_fields(node):
                    if isinstance(val, list):
                        setattr(node, fld, [sub.visit(v) if isinstance(v, ast.AST) else v for v in val])
                    elif isinstance(val, ast.AST):
                        setattr(node, fld, sub.visit(val))
                return node

            def visit_FunctionDef(self, node):
                return self._scope(node)

            visit_AsyncFunctionDef = visit_FunctionDef
            visit_Lambda = visit_FunctionDef

            def visit_ClassDef(self, node):
                return self._scope(node)

            def visit_Name(self, node):
                if isinstance(node.ctx, ast.Load) and node.id in names and node.id not in self.shadow:
                    outer.inlined[node.id] = outer.inlined.get(node.id, 0) + 1
                    return ast.copy_location(ast.Constant(value=cands[node.id].value), node)
                return node

        tr = Sub(set())
        tree.body = [tr.visit(st) if isinstance(st, (ast.FunctionDef, ast.AsyncFunctionDef, ast.ClassDef)) else st for st in tree.body]


class _FoldStrings(ast.NodeTransformer):
    """After constants were written in: `f"{'start-group'}-{n}"` is `f"start-group-{n}"`, `"a" + "b"` is `"ab"`."""
    def visit_JoinedStr(self, node: ast.JoinedStr):
        self.generic_visit(node)
        vals: List[ast.expr] = []
        for v in node.values:
            if isinstance(v, ast.FormattedValue) and v.conversion == -1 and v.format_spec is None and isinstance(v.value, ast.Constant) and isinstance(v.value.value, str):
                v = ast.copy_location(ast.Constant(value=v.value.value), v)
            if isinstance(v, ast.Constant) and isinstance(v.value, str) and vals and isinstance(vals[-1], ast.Constant) and isinstance(vals[-1].value, str):
                vals[-1] = ast.copy_location(ast.Constant(value=vals[-1].value + v.value), vals[-1])
            else:
                vals.append(v)
        if all(isinstance(v, ast.Constant) for v in vals):
            return ast.copy_location(ast.Constant(value="".join(v.value for v in vals)), node)
        node.values = vals
        return node

    def visit_BinOp(self, node: ast.BinOp):
        self.generic_visit(node)
        if isinstance(node.op, ast.Add) and isinstance(node.left, ast.Constant) and isinstance(node.right, ast.Constant) \
                and type(node.left.value) is type(node.right.value) and isinstance(node.left.value, (str, bytes)):
            return ast.copy_location(ast.Constant(value=node.left.value + node.right.value), node)
        return node


class _RecordDicts:
    """`f(x, **rec._asdict())` -> `f(x, a=rec.a, b=rec.b)` when `rec` is a local bound exactly once, by a plain assignment, to the
    construction of a NamedTuple class of this module (fields a, b in that order), and none of the field names is already a keyword of
    the call: `_asdict()` of a named tuple yields exactly its fields, in order, and reading them is pure."""
    def __init__(self):
        self.rewritten: List[str] = []

    def visit(self, tree: ast.Module) -> None:
        recs: Dict[str, List[str]] = {}
        for st in tree.body:
            if isinstance(st, ast.ClassDef) and any((isinstance(b, ast.Name) and b.id == "NamedTuple") or (isinstance(b, ast.Attribute) and b.attr == "NamedTuple") for b in st.bases):
                flds = [x.target.id for x in st.body if isinstance(x, ast.AnnAssign) and isinstance(x.target, ast.Name)]
                if flds and not any(isinstance(x, (ast.FunctionDef, ast.AsyncFunctionDef)) and x.name == "_asdict" for x in st.body):
                    recs[st.name] = flds
        if not recs:
            return
        for fn in [x for x in ast.walk(tree) if isinstance(x, (ast.FunctionDef, ast.AsyncFunctionDef))]:
            binds: Dict[str, List[ast.AST]] = {}
            other: set = set()
            for x in _own(fn):
                if isinstance(x, ast.Assign) and len(x.targets) == 1 and isinstance(x.targets[0], ast.Name):
                    binds.setdefault(x.targets[0].id, []).append(x.value)
                elif isinstance(x, ast.Name) and isinstance(x.ctx, (ast.Store, ast.Del)):
                    other.add(id(x))
            stores: Dict[str, int] = {}
            for x in _own(fn):
                if isinstance(x, ast.Name) and isinstance(x.ctx, (ast.Store, ast.Del)):
                    stores[x.id] = stores.get(x.id, 0) + 1
            params = {a.arg for a in fn.args.args + fn.args.kwonlyargs + fn.args.posonlyargs} | ({fn.args.vararg.arg} if fn.args.vararg else set()) | ({fn.args.kwarg.arg} if fn.args.kwarg else set())
            for c in [x for x in _own(fn) if isinstance(x, ast.Call)]:
                kws: List[ast.keyword] = []
                changed = False
                for k in c.keywords:
                    v = k.value
                    if k.arg is None and isinstance(v, ast.Call) and not v.args and not v.keywords and isinstance(v.func, ast.Attribute) and v.func.attr == "_asdict" \
                            and isinstance(v.func.value, ast.Name):
                        nm = v.func.value.id
                        bs = binds.get(nm, [])
                        if len(bs) == 1 and stores.get(nm) == 1 and nm not in params and isinstance(bs[0], ast.Call) and isinstance(bs[0].func, ast.Name) and bs[0].func.id in recs:
                            flds = recs[bs[0].func.id]
                            have = {q.arg for q in c.keywords if q.arg is not None}
                            if not (set(flds) & have):
                                kws += [ast.copy_location(ast.keyword(arg=f_, value=ast.copy_location(ast.Attribute(value=ast.copy_location(ast.Name(id=nm, ctx=ast.Load()), v), attr=f_, ctx=ast.Load()), v)), v) for f_ in flds]
                                changed = True
                                continue
                    kws.append(k)
                if changed:
                    c.keywords = kws
                    self.rewritten.append(fn.name)


def _own(fn: ast.AST):
    """nodes of a function body, not descending into nested functions / classes / lambdas"""
    stack = list(ast.iter_child_nodes(fn))
    while stack:
        x = stack.pop()
        yield x
        if not isinstance(x, (ast.FunctionDef, ast.AsyncFunctionDef, ast.ClassDef, ast.Lambda)):
            stack.extend(ast.iter_child_nodes(x))


class _MapCalls(ast.NodeTransformer):
    """`map(F, X)` -> `(F(v) for v in X)` where F is a plain name or attribute chain (a pure read: evaluating it per item instead
    of once changes nothing) and there is one iterable: both call iter(X) at once and F(item) at each step.  Directly inside
    list() / set() the generator just made is written as the comprehension (`list(map(F, X))` -> `[F(v) for v in X]`)."""
    def __init__(self):
        self.k = 0
        self.made = set()

    def visit_Call(self, c: ast.Call):
        self.generic_visit(c)
        if isinstance(c.func, ast.Name) and c.func.id == "map" and len(c.args) == 2 and not c.keywords \
                and not any(isinstance(a, ast.Starred) for a in c.args) and _pure_chain(c.args[0]):
            self.k += 1
            v = f"_m{self.k}"
            call = ast.Call(func=c.args[0], args=[ast.Name(id=v, ctx=ast.Load())], keywords=[])
            gen = [ast.comprehension(target=ast.Name(id=v, ctx=ast.Store()), iter=c.args[1], ifs=[], is_async=0)]
            new: ast.expr = ast.GeneratorExp(elt=call, generators=gen)
            for x in ast.walk(new):
                ast.copy_location(x, c)
            self.made.add(id(new))
            return new
        if isinstance(c.func, ast.Name) and c.func.id in ("list", "set") and len(c.args) == 1 and not c.keywords and id(c.args[0]) in self.made:
            g = c.args[0]
            new = ast.ListComp(elt=g.elt, generators=g.generators) if c.func.id == "list" else ast.SetComp(elt=g.elt, generators=g.generators)
            return ast.copy_location(new, c)
        return c


class _DeferredDefaults:
    """A local dictionary that only collects defaults for another one:

        D = {}                                  (bound once, at the top level of the function body)
        ... D["k"] = V ...                      (constant keys, each key stored by one statement, no store inside a loop)
        for k, v in D.items(): T.setdefault(k, v)

    with D mentioned nowhere else and T not mentioned between the binding of D and the loop, is `T.setdefault("k", V)` at each
    store: nothing reads or writes T in between, so setting the default early or late gives the same dictionary, keys in the same order."""
    def __init__(self):
        self.rewritten = 0

    def visit(self, tree: ast.AST):
        for fn in [n for n in ast.walk(tree) if isinstance(n, _FUNCS)]:
            self._fn(fn)
        return tree

    def _fn(self, fn) -> None:
        body = fn.body
        for i, st in enumerate(body):
            name = None
            if isinstance(st, ast.Assign) and len(st.targets) == 1 and isinstance(st.targets[0], ast.Name) and isinstance(st.value, ast.Dict) and not st.value.keys:
                name = st.targets[0].id
            elif isinstance(st, ast.AnnAssign) and isinstance(st.target, ast.Name) and isinstance(st.value, ast.Dict) and not st.value.keys:
                name = st.target.id
            if name is None:
                continue
            # the consuming loop, later in the same block
            j = next((k for k in range(i + 1, len(body)) if self._consumer(body[k], name) is not None), None)
            if j is None:
                continue
            tname = self._consumer(body[j], name)
            mentions = [x for x in _own_nodes(fn) if isinstance(x, ast.Name) and x.id == name]
            stores: List[ast.Assign] = []
            ok = True
            keys = set()

            def scan(stmts: List[ast.stmt], in_loop: bool) -> None:
                nonlocal ok
                for s_ in stmts:
                    if isinstance(s_, ast.Assign) and len(s_.targets) == 1 and isinstance(s_.targets[0], ast.Subscript) and isinstance(s_.targets[0].value, ast.Name) \
                            and s_.targets[0].value.id == name:
                        k_ = s_.targets[0].slice
                        if in_loop or not (isinstance(k_, ast.Constant) and isinstance(k_.value, str)) or k_.value in keys \
                                or any(isinstance(x, ast.Name) and x.id in (name, tname) for x in ast.walk(s_.value)):
                            ok = False
                        else:
                            keys.add(k_.value)
                            stores.append(s_)
                        continue
                    if any(isinstance(x, ast.Name) and x.id == tname for x in ast.walk(s_) if not isinstance(s_, (ast.If, ast.Try, ast.With, ast.For, ast.While))):
                        ok = False
                    if isinstance(s_, (ast.If, ast.While)) and any(isinstance(x, ast.Name) and x.id in (tname, name) for x in ast.walk(s_.test)):
                        ok = False
                    for fld in ("body", "orelse", "finalbody"):
                        sub = getattr(s_, fld, None)
                        if isinstance(sub, list) and sub and isinstance(sub[0], ast.stmt):
                            scan(sub, in_loop or isinstance(s_, (ast.For, ast.While, ast.AsyncFor)))
                    for h in getattr(s_, "handlers", []) or []:
                        scan(h.body, in_loop)
                    if isinstance(s_, _FUNCS + (ast.ClassDef,)):
                        ok = False

            scan(body[i + 1:j], False)
            # every mention of D is accounted for: the binding, the stores, the loop header
            if not ok or not stores or len(mentions) != 1 + len(stores) + 1:
                continue
            for s_ in stores:
                call = ast.Call(func=ast.Attribute(value=ast.Name(id=tname, ctx=ast.Load()), attr="setdefault", ctx=ast.Load()),
                                args=[s_.targets[0].slice, s_.value], keywords=[])
                new = ast.copy_location(ast.Expr(value=call), s_)
                ast.fix_missing_locations(new)
                self._replace(fn, s_, new)
            del body[j]
            del body[i]
            self.rewritten += 1
            return self._fn(fn)

    @staticmethod
    def _consumer(st: ast.stmt, name: str) -> Optional[str]:
        if isinstance(st, ast.For) and not st.orelse and isinstance(st.target, ast.Tuple) and len(st.target.elts) == 2 \
                and all(isinstance(x, ast.Name) for x in st.target.elts) and isinstance(st.iter, ast.Call) and isinstance(st.iter.func, ast.Attribute) \
                and st.iter.func.attr == "items" and not st.iter.args and isinstance(st.iter.func.value, ast.Name) and st.iter.func.value.id == name \
                and len(st.body) == 1 and isinstance(st.body[0], ast.Expr) and isinstance(st.body[0].value, ast.Call):
            c = st.body[0].value
            k_, v_ = st.target.elts
            if isinstance(c.func, ast.Attribute) and c.func.attr == "setdefault" and isinstance(c.func.value, ast.Name) and c.func.value.id != name \
                    and len(c.args) == 2 and not c.keywords and isinstance(c.args[0], ast.Name) and c.args[0].id == k_.id \
                    and isinstance(c.args[1], ast.Name) and c.args[1].id == v_.id:
                return c.func.value.id
        return None

    @staticmethod
    def _replace(root: ast.AST, old: ast.stmt, new: ast.stmt) -> None:
        for n in ast.walk(root):
            for fld in ("body", "orelse", "finalbody"):
                b = getattr(n, fld, None)
                if isinstance(b, list):
                    for i, x in enumerate(b):
                        if x is old:
                            b[i] = new
                            return


class _ModuleTables(ast.NodeTransformer):
    """`for row in TABLE:` where TABLE is a module-level name bound exactly once to a tuple display of pure elements (names, constants,
    tuples of those) and is no local of the function: the header reads the display itself (which `_Unroll` may then write out).
    `getattr(x, "name")` with a literal identifier and no default is `x.name`."""
    def __init__(self, tree: ast.Module):
        self.changed = 0
        binds: Dict[str, int] = {}
        self.tables: Dict[str, ast.Tuple] = {}
        for n in ast.walk(tree):
            if isinstance(n, ast.Name) and not isinstance(n.ctx, ast.Load):
                binds[n.id] = binds.get(n.id, 0) + 1
            elif isinstance(n, (ast.Global, ast.Nonlocal)):
                for nm in n.names:
                    binds[nm] = binds.get(nm, 0) + 2
            elif isinstance(n, ast.arg):
                binds[n.arg] = binds.get(n.arg, 0) + 2
        for st in tree.body:
            tgt = val = None
            if isinstance(st, ast.Assign) and len(st.targets) == 1 and isinstance(st.targets[0], ast.Name):
                tgt, val = st.targets[0].id, st.value
            elif isinstance(st, ast.AnnAssign) and isinstance(st.target, ast.Name) and st.value is not None:
                tgt, val = st.target.id, st.value
            if tgt is not None and binds.get(tgt) == 1 and isinstance(val, ast.Tuple) and 1 <= len(val.elts) <= 6 and self._row(val):
                self.tables[tgt] = val

    def _row(self, e: ast.AST) -> bool:
        if isinstance(e, ast.Tuple):
            return all(self._row(x) for x in e.elts)
        return isinstance(e, (ast.Name, ast.Constant)) or (isinstance(e, ast.Attribute) and _pure(e))

    def visit_For(self, node: ast.For):
        self.generic_visit(node)
        if isinstance(node.iter, ast.Name) and node.iter.id in self.tables:
            import copy
            node.iter = ast.copy_location(copy.deepcopy(self.tables[node.iter.id]), node.iter)
            ast.fix_missing_locations(node.iter)
            self.changed += 1
        return node

    def visit_Call(self, node: ast.Call):
        self.generic_visit(node)
        if isinstance(node.func, ast.Name) and node.func.id == "getattr" and len(node.args) == 2 and not node.keywords \
                and isinstance(node.args[1], ast.Constant) and isinstance(node.args[1].value, str) and node.args[1].value.isidentifier() \
                and isinstance(node.args[0], ast.Name):
            self.changed += 1
            return ast.copy_location(ast.Attribute(value=node.args[0], attr=node.args[1].value, ctx=ast.Load()), node)
        return node


class _Unroll(ast.NodeTransformer):
    """`for a, b in ((x1, y1), (x2, y2)): BODY` (short display of pure elements, no break/continue/else, the loop variables
    not re-bound, not captured by a closure and not read after the loop) is written out: BODY[x1, y1]; BODY[x2, y2]."""
    def __init__(self):
        self.unrolled = 0

    def _fn(self, fn):
        self.generic_visit(fn)

        def names_of(tg):
            if isinstance(tg, ast.Name):
                return [tg.id]
            if isinstance(tg, (ast.Tuple, ast.List)) and all(isinstance(x, ast.Name) for x in tg.elts):
                return [x.id for x in tg.elts]
            return None

        def try_unroll(st: ast.For) -> Optional[List[ast.stmt]]:
            import copy
            it = st.iter
            if st.orelse or not isinstance(it, (ast.Tuple, ast.List)) or not 1 <= len(it.elts) <= 4 or not all(_pure(x) for x in it.elts) \
                    or any(isinstance(x, ast.Starred) for x in it.elts):
                return None
            names = names_of(st.target)
            if names is None:
                return None
            if isinstance(st.target, (ast.Tuple, ast.List)) and not all(isinstance(x, (ast.Tuple, ast.List)) and len(x.elts) == len(names) for x in it.elts):
                return None

            def own(nodes):
                stack = list(nodes)
                while stack:
                    n = stack.pop()
                    yield n
                    if isinstance(n, (ast.For, ast.AsyncFor, ast.While)) and n is not st:
                        # break / continue inside belong to that inner loop - but keep walking for names
                        for x in ast.walk(n):
                            if not isinstance(x, (ast.Break, ast.Continue)):
                                yield x
                        continue
                    stack.extend(ast.iter_child_nodes(n))

            for x in own(st.body):
                if isinstance(x, (ast.Break, ast.Continue)):
                    return None
                if isinstance(x, ast.Name) and x.id in names and not isinstance(x.ctx, ast.Load):
                    return None
                if isinstance(x, _FUNCS + (ast.Lambda, ast.ClassDef, ast.GeneratorExp, ast.ListComp, ast.SetComp, ast.DictComp)) and \
                        any(isinstance(y, ast.Name) and y.id in names for y in ast.walk(x)):
                    return None
            for x in ast.walk(fn):
                if isinstance(x, ast.Name) and x.id in names and not any(x is y for y in ast.walk(st)):
                    return None
            out: List[ast.stmt] = []
            for el in it.elts:
                mapping = {names[0]: el} if isinstance(st.target, ast.Name) else {n: e for n, e in zip(names, el.elts)}

                class Sub(ast.NodeTransformer):
                    def visit_Name(self, node: ast.Name):
                        if isinstance(node.ctx, ast.Load) and node.id in mapping:
                            return ast.copy_location(copy.deepcopy(mapping[node.id]), node)
                        return node
                for b in st.body:
                    nb = Sub().visit(copy.deepcopy(b))
                    ast.fix_missing_locations(nb)
                    out.append(nb)
            return out

        def walk(node):
            for fld in ("body", "orelse", "finalbody"):
                b = getattr(node, fld, None)
                if isinstance(b, list) and b and isinstance(b[0], ast.stmt):
                    new: List[ast.stmt] = []
                    for st in b:
                        if not isinstance(st, _FUNCS + (ast.ClassDef,)):
                            walk(st)
                        rep_ = try_unroll(st) if isinstance(st, ast.For) else None
                        if rep_ is not None:
                            self.unrolled += 1
                            new += rep_
                        else:
                            new.append(st)
                    setattr(node, fld, new)
            for h in getattr(node, "handlers", []) or []:
                walk(h)

        walk(fn)
        return fn

    visit_FunctionDef = _fn
    visit_AsyncFunctionDef = _fn


def _negate(t: ast.AST) -> ast.AST:
    if isinstance(t, ast.UnaryOp) and isinstance(t.op, ast.Not):
        return t.operand
    if isinstance(t, ast.Compare) and len(t.ops) == 1:
        flip = {ast.In: ast.NotIn, ast.NotIn: ast.In, ast.Is: ast.IsNot, ast.IsNot: ast.Is, ast.Eq: ast.NotEq, ast.NotEq: ast.Eq}
        for a, b in flip.items():
            if isinstance(t.ops[0], a):
                return ast.copy_location(ast.Compare(left=t.left, ops=[b()], comparators=t.comparators), t)
    return ast.copy_location(ast.UnaryOp(op=ast.Not(), operand=t), t)


class _GenInline:
    """Plain generator functions of the same class / module are written out where they are consumed on the spot.

    (1) `for T in self.g(args): BODY` / `for T in g(args): BODY`: the loop is replaced by g's body (its locals renamed apart, its
        parameters bound to the arguments in call order) with every `yield E` replaced by `T = E; BODY`.  That is what the loop
        does - the generator runs up to a yield, the body runs with the yielded value, the generator is resumed - provided that
          - BODY has no `break` / `continue` of this loop and the loop no `else` (they would leave / resume the generator),
          - no yield sits under a `try` body, a `finally`, a handler or a `with` (an exception from BODY never passes through g's
            handlers: the generator is merely suspended while BODY runs).
    (2) `x = list(self.g(args))` (also tuple / set, also as the value of `return` or an annotated assignment): the generator is
        run to exhaustion at once, so the statement is replaced by `x = []`, g's body with `yield E` replaced by `x.append(E)`
        (a temporary and `tuple(tmp)` / `set(tmp)` where x cannot serve), whatever the yields are nested in.
    In both forms g must have every `yield E` as a statement of its own, no `yield from`, no await, no nested scope, no
    global/nonlocal, no *args/**kwargs, must not be overridden (defined once), and a bare `return` only where it can be written as
    `break` (inside the loop that ends g's body, not inside an inner loop) or dropped (last statement).
    The pinned tree contains no generator functions: it is unchanged by this pass."""

    def __init__(self, imported: Optional[Dict[str, ast.FunctionDef]] = None):
        self.inlined = 0
        self.dropped: List[str] = []
        self._k = 0
        # module-level generator functions of sibling modules of the package that this module imports by name (`from .m import g`):
        # {local alias: definition}; only generators closed over their parameters and builtins (see closed_generator) are offered
        self.imported = imported or {}

    # ------------------------------------------------------------------ driver
    def visit(self, tree: ast.Module) -> None:
        import copy
        self.copy = copy
        counts: Dict[str, int] = {}
        for n in ast.walk(tree):
            if isinstance(n, _FUNCS):
                counts[n.name] = counts.get(n.name, 0) + 1
        mod_gens = {st.name: (self._no_yield_from(st), None) for st in tree.body
                    if isinstance(st, ast.FunctionDef) and counts.get(st.name) == 1 and not st.decorator_list and self._shape(self._no_yield_from(st)) is not None}
        rebound = {n.id for n in ast.walk(tree) if isinstance(n, ast.Name) and isinstance(n.ctx, (ast.Store, ast.Del))} \
            | {a.arg for f in ast.walk(tree) if isinstance(f, _FUNCS + (ast.Lambda,)) for a in f.args.posonlyargs + f.args.args + f.args.kwonlyargs
               + ([f.args.vararg] if f.args.vararg else []) + ([f.args.kwarg] if f.args.kwarg else [])}
        for alias, g in self.imported.items():
            g = self._no_yield_from(g)
            if alias not in counts and alias not in rebound and alias not in mod_gens and self._shape(g) is not None:
                mod_gens[alias] = (g, None)
        for c in [tree] + [x for x in ast.walk(tree) if isinstance(x, ast.ClassDef)]:
            cls_gens: Dict[str, Tuple[ast.FunctionDef, Optional[str]]] = {}
            if isinstance(c, ast.ClassDef):
                for st in c.body:
                    if isinstance(st, ast.FunctionDef) and counts.get(st.name) == 1:
                        kind = self._method_kind(st)
                        if kind in ("method", "staticmethod") and self._shape(self._no_yield_from(st)) is not None:
                            cls_gens[st.name] = (self._no_yield_from(st), kind)
            for fn in (c.body if isinstance(c, ast.ClassDef) else tree.body):
                if isinstance(fn, _FUNCS):
                    for _ in range(6):
                        if not self._rewrite_in(fn, fn, mod_gens, cls_gens):
                            break
        if self.inlined:
            # a private generator nothing refers to any more (every use was replaced by its body) is dead code: dropped
            for c in [tree] + [x for x in ast.walk(tree) if isinstance(x, ast.ClassDef)]:
                for st in list(c.body):
                    if isinstance(st, ast.FunctionDef) and st.name.startswith("_") and not st.name.startswith("__") and counts.get(st.name) == 1 \
                            and any(isinstance(x, (ast.Yield, ast.YieldFrom)) for x in _own_nodes(st)):
                        refs = [x for x in ast.walk(tree) if (isinstance(x, ast.Name) and x.id == st.name) or (isinstance(x, ast.Attribute) and x.attr == st.name)
                                or (isinstance(x, ast.Constant) and x.value == st.name)]
                        if not refs:
                            c.body.remove(st)
                            self.dropped.append(st.name)

    def _no_yield_from(self, g: ast.FunctionDef) -> ast.FunctionDef:
        """g, or - when g delegates with `yield from E` statements - a copy in which each of them reads `for v in E: yield v`.
        The two differ only for a consumer that sends values / throws into the generator or uses the sub-generator's return
        value; the copy is used for nothing but writing g out at a `for` loop or a list()/set()/tuple() call, which do neither.
        The definition in the tree stays as it is."""
        cache = self.__dict__.setdefault("_nyf", {})
        if id(g) in cache:
            return cache[id(g)]
        res = g
        yfs = [n for n in _own_nodes(g) if isinstance(n, ast.YieldFrom)]
        if yfs:
            stmts = [n for n in _own_nodes(g) if isinstance(n, ast.Expr) and isinstance(n.value, ast.YieldFrom)]
            if len(stmts) == len(yfs):
                res = self.copy.deepcopy(g)
                k = [0]

                class T(ast.NodeTransformer):
                    def visit_FunctionDef(self_, node):
                        if node is res:
                            self_.generic_visit(node)
                        return node

                    visit_AsyncFunctionDef = visit_Lambda = visit_ClassDef = lambda self_, node: node

                    def visit_Expr(self_, node):
                        if isinstance(node.value, ast.YieldFrom):
                            k[0] += 1
                            v = f"_yf{k[0]}"
                            loop = ast.For(target=ast.Name(id=v, ctx=ast.Store()), iter=node.value.value,
                                           body=[ast.Expr(value=ast.Yield(value=ast.Name(id=v, ctx=ast.Load())))], orelse=[])
                            return ast.fix_missing_locations(ast.copy_location(loop, node))
                        return node

                T().visit(res)
        cache[id(g)] = res
        return res

    @staticmethod
    def _method_kind(st: ast.FunctionDef) -> Optional[str]:
        if not st.decorator_list:
            return "method"
        if len(st.decorator_list) == 1 and isinstance(st.decorator_list[0], ast.Name) and st.decorator_list[0].id in ("staticmethod", "classmethod"):
            return st.decorator_list[0].id
        return None

    # ------------------------------------------------------------ what g looks like
    def _shape(self, g: ast.FunctionDef) -> Optional[Dict[str, object]]:
        """None when g cannot be written out at all; else {'yields': n, 'protected': a yield sits in a protected region,
        'returns': 'none' | 'break' | 'drop' | 'both'}"""
        a = g.args
        if a.vararg or a.kwarg:
            return None
        yields = 0
        for n in _own_nodes(g):
            if isinstance(n, (ast.YieldFrom, ast.Global, ast.Nonlocal, ast.Await) + _FUNCS + (ast.Lambda, ast.ClassDef)):
                return None
            if isinstance(n, ast.Return) and n.value is not None:
                return None
            if isinstance(n, ast.Yield):
                yields += 1
        if not 1 <= yields <= 6:
            return None
        found = [0]
        prot = [False]

        def blocks(body: List[ast.stmt], protected: bool) -> bool:
            for st in body:
                if isinstance(st, ast.Expr) and isinstance(st.value, ast.Yield):
                    if st.value.value is None:
                        return False
                    found[0] += 1
                    prot[0] = prot[0] or protected
                    continue
                if any(isinstance(x, ast.Yield) for x in ast.walk(st)) and not isinstance(st, (ast.For, ast.While, ast.If, ast.Try, ast.With)):
                    return False
                if isinstance(st, (ast.For, ast.While, ast.If)):
                    if not blocks(st.body, protected) or not blocks(st.orelse, protected):
                        return False
                elif isinstance(st, ast.With):
                    if not blocks(st.body, True):
                        return False
                elif isinstance(st, ast.Try):
                    if not blocks(st.body, True) or not blocks(st.finalbody, True) or any(not blocks(h.body, True) for h in st.handlers):
                        return False
                    if not blocks(st.orelse, protected or bool(st.finalbody)):
                        return False
            return True

        if not blocks(g.body, False) or found[0] != yields:
            return None
        # returns: droppable (very last statement) or writable as `break` (in the loop that ends the body, not in an inner loop)
        body = [st for st in g.body if not (isinstance(st, ast.Expr) and isinstance(st.value, ast.Constant))]
        rets = [n for n in _own_nodes(g) if isinstance(n, ast.Return)]
        kinds = set()
        last = body[-1] if body else None
        for r in rets:
            if r is last:
                kinds.add("drop")
                continue
            tail = last
            if isinstance(tail, ast.Return) and len(body) >= 2:
                tail = body[-2]
            if not (isinstance(tail, (ast.For, ast.While)) and not tail.orelse and tail is body[-1]):
                return None

            def inside(stmts: List[ast.stmt]) -> bool:
                for st in stmts:
                    if st is r:
                        return True
                    if isinstance(st, (ast.For, ast.AsyncFor, ast.While)):
                        continue  # a `break` there would leave the inner loop only
                    for fld in ("body", "orelse", "finalbody"):
                        sub = getattr(st, fld, None)
                        if isinstance(sub, list) and sub and isinstance(sub[0], ast.stmt) and inside(sub):
                            return True
                    for h in getattr(st, "handlers", []) or []:
                        if inside(h.body):
                            return True
                return False

            if not inside(tail.body):
                return None
            kinds.add("break")
        return {"yields": yields, "protected": prot[0], "returns": kinds}

    # ----------------------------------------------------------------- rewriting
    def _rewrite_in(self, fn, node, mod_gens, cls_gens) -> bool:
        """one replacement at most (the tree changes under the walk); True when something was replaced"""
        selfname = fn.args.args[0].arg if fn.args.args else None
        for fld, val in ast.iter_fields(node):
            if not isinstance(val, list) or not val or not isinstance(val[0], ast.stmt):
                continue
            for i, st in enumerate(val):
                if isinstance(st, _FUNCS + (ast.ClassDef,)):
                    continue
                new = None
                if isinstance(st, ast.For) and not st.orelse:
                    new = self._expand_loop(st, selfname, mod_gens, cls_gens, fn)
                elif isinstance(st, (ast.Assign, ast.AnnAssign, ast.Return)) and st.value is not None:
                    new = self._expand_collect(st, selfname, mod_gens, cls_gens)
                if new is not None:
                    val[i:i + 1] = new
                    self.inlined += 1
                    return True
                if self._rewrite_in(fn, st, mod_gens, cls_gens):
                    return True
        for h in getattr(node, "handlers", []) or []:
            if self._rewrite_in(fn, h, mod_gens, cls_gens):
                return True
        return False

    def _callee(self, call: ast.AST, selfname, mod_gens, cls_gens):
        """(generator definition, name g's own `self` is to be written as or None) for a direct call of a known generator"""
        if not isinstance(call, ast.Call) or any(isinstance(a, ast.Starred) for a in call.args) or any(k.arg is None for k in call.keywords):
            return None
        if isinstance(call.func, ast.Name) and call.func.id in mod_gens:
            return mod_gens[call.func.id][0], None, False
        if isinstance(call.func, ast.Attribute) and isinstance(call.func.value, ast.Name) and call.func.value.id == selfname and selfname is not None \
                and call.func.attr in cls_gens:
            g, kind = cls_gens[call.func.attr]
            return g, (selfname if kind == "method" else None), kind == "method"
        return None

    def _instantiate(self, g: ast.FunctionDef, is_method: bool, recv_self: Optional[str], call: ast.Call, keep_free: set):
        """-> (prelude assignments binding the parameters, g's body with locals renamed apart and `return` written as break / dropped)"""
        copy = self.copy
        params = [p.arg for p in g.args.posonlyargs + g.args.args]
        gself = None
        if is_method:
            gself, params = params[0], params[1:]
        kwonly = [p.arg for p in g.args.kwonlyargs]
        bound: Dict[str, ast.expr] = {}
        order: List[str] = []
        if len(call.args) > len(params):
            return None
        for p_, a_ in zip(params, call.args):
            bound[p_] = a_
            order.append(p_)
        posonly = [q.arg for q in g.args.posonlyargs]
        for k in call.keywords:
            if k.arg in bound or k.arg not in params + kwonly or k.arg in posonly:
                return None
            bound[k.arg] = k.value
            order.append(k.arg)
        plain = g.args.posonlyargs + g.args.args
        defaults = dict(zip([p.arg for p in plain[len(plain) - len(g.args.defaults):]], g.args.defaults))
        defaults.update({p.arg: d for p, d in zip(g.args.kwonlyargs, g.args.kw_defaults) if d is not None})
        for p_ in params + kwonly:
            if p_ not in bound:
                if p_ not in defaults or not isinstance(defaults[p_], ast.Constant):
                    return None
                bound[p_] = defaults[p_]
                order.append(p_)
        self._k += 1
        pre = f"_g{self._k}_"
        locals_ = set(params + kwonly)
        for n in _own_nodes(g):
            if isinstance(n, ast.Name) and isinstance(n.ctx, (ast.Store, ast.Del)):
                locals_.add(n.id)
            elif isinstance(n, ast.ExceptHandler) and n.name:
                locals_.add(n.name)
        body = [copy.deepcopy(st) for st in g.body if not (isinstance(st, ast.Expr) and isinstance(st.value, ast.Constant))]
        # `return`: dropped at the very end, `break` inside the loop that ends the body (checked by _shape)
        if body and isinstance(body[-1], ast.Return):
            body.pop()

        def ret_to_break(stmts: List[ast.stmt]) -> None:
            for j, st in enumerate(stmts):
                if isinstance(st, ast.Return):
                    stmts[j] = ast.copy_location(ast.Break(), st)
                    continue
                for fld in ("body", "orelse", "finalbody"):
                    sub = getattr(st, fld, None)
                    if isinstance(sub, list) and sub and isinstance(sub[0], ast.stmt):
                        ret_to_break(sub)
                for h in getattr(st, "handlers", []) or []:
                    ret_to_break(h.body)

        ret_to_break(body)
        if not body:
            body = [ast.Pass()]
        holder = ast.Module(body=body, type_ignores=[])
        # a parameter g never re-binds, given a plain name the consumer never re-binds (or a constant): written as that name
        g_stores = {n.id for n in _own_nodes(g) if isinstance(n, ast.Name) and isinstance(n.ctx, (ast.Store, ast.Del))}
        direct = {p_: bound[p_] for p_ in order if p_ not in g_stores and (isinstance(bound[p_], ast.Constant) or isinstance(bound[p_], ast.Name) and bound[p_].id not in keep_free)}
        order = [p_ for p_ in order if p_ not in direct]
        for n in ast.walk(holder):
            for fld, val in ast.iter_fields(n):
                if isinstance(val, ast.Name) and val.id in direct and isinstance(val.ctx, ast.Load):
                    setattr(n, fld, ast.copy_location(copy.deepcopy(direct[val.id]), val))
                elif isinstance(val, list):
                    for j, v_ in enumerate(val):
                        if isinstance(v_, ast.Name) and v_.id in direct and isinstance(v_.ctx, ast.Load):
                            val[j] = ast.copy_location(copy.deepcopy(direct[v_.id]), v_)
        for n in ast.walk(holder):
            if isinstance(n, ast.Name):
                if gself is not None and n.id == gself:
                    if not isinstance(n.ctx, ast.Load):
                        return None
                    n.id = recv_self
                elif n.id in locals_ and n.id not in direct:
                    n.id = pre + n.id
            elif isinstance(n, ast.ExceptHandler) and n.name in locals_:
                n.name = pre + n.name
        prelude = [ast.copy_location(ast.Assign(targets=[ast.Name(id=pre + p_, ctx=ast.Store())], value=bound[p_]), call) for p_ in order]
        return prelude, holder.body, pre

    def _splice(self, stmts: List[ast.stmt], at_yield) -> List[ast.stmt]:
        out: List[ast.stmt] = []
        for st in stmts:
            if isinstance(st, ast.Expr) and isinstance(st.value, ast.Yield):
                out += at_yield(st.value.value)
                continue
            for fld in ("body", "orelse", "finalbody"):
                sub = getattr(st, fld, None)
                if isinstance(sub, list) and sub and isinstance(sub[0], ast.stmt):
                    setattr(st, fld, self._splice(sub, at_yield))
            for h in getattr(st, "handlers", []) or []:
                h.body = self._splice(h.body, at_yield)
            out.append(st)
        return out

    def _expand_loop(self, loop: ast.For, selfname: Optional[str], mod_gens, cls_gens, owner=None) -> Optional[List[ast.stmt]]:
        copy = self.copy
        got = self._callee(loop.iter, selfname, mod_gens, cls_gens)
        if got is None:
            return None
        g, recv_self, is_method = got
        shape = self._shape(g)
        if shape is None or shape["protected"] or shape["yields"] > 3:
            return None

        # the loop body neither leaves nor resumes the generator by itself
        def own_jumps(body) -> set:
            stack = list(body)
            kinds = set()
            while stack:
                x = stack.pop()
                if isinstance(x, (ast.Break, ast.Continue)):
                    kinds.add(type(x).__name__)
                    continue
                if isinstance(x, _FUNCS + (ast.ClassDef, ast.Lambda)):
                    continue
                if isinstance(x, (ast.For, ast.AsyncFor, ast.While)):
                    # (a `break` / `continue` inside a nested loop belongs to that loop; its `else` clause does not)
                    stack.extend(x.orelse)
                    continue
                stack.extend(ast.iter_child_nodes(x))
            return kinds

        jumps = own_jumps(loop.body)
        if "Break" in jumps:
            return None
        if "Continue" in jumps and not self._tail_yields(g):
            # (`continue` resumes the generator; written out it starts the next round of the loop of g that the body was put
            #  into - the same thing exactly when every yield is the last statement of a loop body of g)
            return None
        body_stores = {x.id for b in loop.body for x in ast.walk(b) if isinstance(x, ast.Name) and isinstance(x.ctx, (ast.Store, ast.Del))}
        body_stores |= {x.id for x in ast.walk(loop.target) if isinstance(x, ast.Name)}
        inst = self._instantiate(g, is_method, recv_self, loop.iter, body_stores)
        if inst is None:
            return None
        prelude, body, _pre = inst
        merged = self._merge_targets(loop, body, prelude, _pre, owner)

        def at_yield(val: ast.expr) -> List[ast.stmt]:
            out: List[ast.stmt] = []
            if merged:
                # the generator's own variables were renamed to the loop's targets: nothing to bind
                return [copy.deepcopy(b) for b in loop.body]
            tgt = copy.deepcopy(loop.target)
            if isinstance(tgt, ast.Tuple) and isinstance(val, ast.Tuple) and len(tgt.elts) == len(val.elts) \
                    and all(isinstance(t_, ast.Name) for t_ in tgt.elts) and all(isinstance(v_, (ast.Name, ast.Constant)) for v_ in val.elts):
                # `a, b = x, y` with plain names on both sides (disjoint: g's locals were renamed apart): one binding each
                for t_, v_ in zip(tgt.elts, val.elts):
                    out.append(ast.copy_location(ast.Assign(targets=[t_], value=v_), loop))
            else:
                out.append(ast.copy_location(ast.Assign(targets=[tgt], value=val), loop))
            return out + [copy.deepcopy(b) for b in loop.body]

        new = prelude + self._splice(body, at_yield)
        for st in new:
            ast.fix_missing_locations(st)
        return new

    def _merge_targets(self, loop: ast.For, body: List[ast.stmt], prelude: List[ast.stmt], pre: str, owner) -> bool:
        """`for a, b in g(): BODY` where every yield of g is `yield x, y` with plain locals x, y of g: rather than binding `a = x; b = y`
        at the yield, g's locals x, y are given the names a, b.  The two sets of variables hold the same values whenever the consumer
        looks (BODY runs while g is suspended at the yield) provided the consumer
          - never stores to a / b itself (BODY, nested scopes included) and does not capture them in a nested scope,
          - mentions a / b nowhere outside this loop (after the loop a would be the LAST YIELDED x, while g's x may have moved on),
        and x, y are locals of g that are not its parameters, distinct, and the same for every yield.  -> True when renamed (in place)."""
        if owner is None:
            return False
        tgt = loop.target
        tnames = [tgt] if isinstance(tgt, ast.Name) else (list(tgt.elts) if isinstance(tgt, ast.Tuple) else None)
        if not tnames or not all(isinstance(t, ast.Name) for t in tnames) or len({t.id for t in tnames}) != len(tnames):
            return False
        ys = [n.value for st in body for n in ast.walk(st) if isinstance(n, ast.Expr) and isinstance(n.value, ast.Yield)]
        if not ys:
            return False
        shapes = set()
        for y in ys:
            v = y.value
            vn = [v] if isinstance(v, ast.Name) and isinstance(tgt, ast.Name) else (list(v.elts) if isinstance(v, ast.Tuple) and isinstance(tgt, ast.Tuple) else None)
            if not vn or len(vn) != len(tnames) or not all(isinstance(x, ast.Name) and x.id.startswith(pre) for x in vn):
                return False
            shapes.add(tuple(x.id for x in vn))
        if len(shapes) != 1:
            return False
        locs = list(shapes.pop())
        if len(set(locs)) != len(locs):
            return False
        # not parameters of g (those are bound in the prelude)
        bound_in_prelude = {t.id for st in prelude for t in ast.walk(st) if isinstance(t, ast.Name) and isinstance(t.ctx, ast.Store)}
        if set(locs) & bound_in_prelude:
            return False
        want = {t.id for t in tnames}
        # the consumer: no store to the targets in BODY, no nested scope mentioning them, no mention outside the loop
        for b in loop.body:
            for n in ast.walk(b):
                if isinstance(n, ast.Name) and n.id in want and isinstance(n.ctx, (ast.Store, ast.Del)):
                    return False
                if isinstance(n, _FUNCS + (ast.Lambda, ast.ClassDef, ast.GeneratorExp, ast.ListComp, ast.SetComp, ast.DictComp)):
                    if any(isinstance(m, ast.Name) and m.id in want for m in ast.walk(n)):
                        return False
        inside = {id(n) for n in ast.walk(loop)}
        for n in ast.walk(owner):
            if id(n) in inside:
                continue
            if isinstance(n, ast.Name) and n.id in want:
                return False
            if isinstance(n, ast.arg) and n.arg in want:
                return False
            if isinstance(n, (ast.Global, ast.Nonlocal)) and set(n.names) & want:
                return False
        ren = dict(zip(locs, [t.id for t in tnames]))
        for st in body:
            for n in ast.walk(st):
                if isinstance(n, ast.Name) and n.id in ren:
                    n.id = ren[n.id]
        return True

    @staticmethod
    def _tail_yields(g: ast.FunctionDef) -> bool:
        """every `yield E` statement of g is the last statement of the body of a loop of g"""
        ok = True
        found = 0

        def walk(stmts: List[ast.stmt], tail_of_loop: bool) -> None:
            nonlocal ok, found
            for i, st in enumerate(stmts):
                if isinstance(st, ast.Expr) and isinstance(st.value, ast.Yield):
                    found += 1
                    if not (tail_of_loop and i == len(stmts) - 1):
                        ok = False
                    continue
                if isinstance(st, (ast.For, ast.While)):
                    walk(st.body, True)
                    walk(st.orelse, False)
                    continue
                for fld in ("body", "orelse", "finalbody"):
                    sub = getattr(st, fld, None)
                    if isinstance(sub, list) and sub and isinstance(sub[0], ast.stmt):
                        walk(sub, False)
                for h in getattr(st, "handlers", []) or []:
                    walk(h.body, False)

        walk(g.body, False)
        return ok and found > 0

    def _expand_collect(self, st: ast.stmt, selfname: Optional[str], mod_gens, cls_gens) -> Optional[List[ast.stmt]]:
        """`x = list(g(args))` / `return tuple(g(args))`: g run to exhaustion into a list"""
        copy = self.copy
        v = st.value
        if not (isinstance(v, ast.Call) and isinstance(v.func, ast.Name) and v.func.id in ("list", "tuple", "set") and len(v.args) == 1 and not v.keywords):
            return None
        got = self._callee(v.args[0], selfname, mod_gens, cls_gens)
        if got is None:
            return None
        g, recv_self, is_method = got
        if self._shape(g) is None:
            return None
        call = v.args[0]
        arg_names = {x.id for x in ast.walk(call) if isinstance(x, ast.Name)}
        tgt = None
        as_set = v.func.id == "set"  # (a set is built by adding: `set(g())` == `acc = set()` + `acc.add(E)` per yield)
        if isinstance(st, ast.Assign) and len(st.targets) == 1 and isinstance(st.targets[0], ast.Name) and v.func.id in ("list", "set") and st.targets[0].id not in arg_names:
            tgt = st.targets[0].id
        elif isinstance(st, ast.AnnAssign) and isinstance(st.target, ast.Name) and v.func.id in ("list", "set") and st.target.id not in arg_names:
            tgt = st.target.id
        inst = self._instantiate(g, is_method, recv_self, call, {tgt} if tgt else set())
        if inst is None:
            return None
        prelude, body, pre = inst
        acc = tgt or pre + "acc"
        if tgt is not None and any(isinstance(x, ast.Name) and x.id == tgt for b in body for x in ast.walk(b)):
            return None  # (g reads a global of that name)

        def at_yield(val: ast.expr) -> List[ast.stmt]:
            app = ast.Call(func=ast.Attribute(value=ast.Name(id=acc, ctx=ast.Load()), attr="add" if as_set else "append", ctx=ast.Load()), args=[val], keywords=[])
            return [ast.copy_location(ast.Expr(value=app), st)]

        def empty() -> ast.expr:
            return ast.Call(func=ast.Name(id="set", ctx=ast.Load()), args=[], keywords=[]) if as_set else ast.List(elts=[], ctx=ast.Load())

        first: ast.stmt
        if isinstance(st, ast.AnnAssign) and tgt is not None:
            first = ast.AnnAssign(target=ast.Name(id=acc, ctx=ast.Store()), annotation=st.annotation, value=empty(), simple=1)
        else:
            first = ast.Assign(targets=[ast.Name(id=acc, ctx=ast.Store())], value=empty())
        # (the arguments are evaluated before the list exists in the original; an empty display has no effect, the order is immaterial)
        # (the empty accumulator first: it has no effect of its own, and the parameter bindings then directly precede the code that reads them)
        new = [ast.copy_location(first, st)] + prelude + self._splice(body, at_yield)
        if tgt is None:
            res: ast.expr = ast.Name(id=acc, ctx=ast.Load())
            if v.func.id == "tuple":
                res = ast.Call(func=ast.Name(id=v.func.id, ctx=ast.Load()), args=[res], keywords=[])
            st2 = copy.copy(st)
            st2.value = res
            new.append(st2)
        for x in new:
            ast.fix_missing_locations(x)
        return new


class _GenexpLoops(ast.NodeTransformer):
    """`for X in (E for y in Y if C): BODY`  ->  `for y' in Y: if not C: continue; X = E; BODY` (y' a fresh name).
    A generator expression consumed by a `for` statement produces its elements one at a time, each right before the body runs:
    that is the loop over Y with the element computed at the top of the body.  Only for a single `for` clause with a plain name
    as its variable, no `else` on the loop, and a body without `continue` when the comprehension has conditions after which the
    element would have to be skipped (the rewritten `continue` is the comprehension's own)."""
    def __init__(self):
        self.rewritten = 0

    def visit_For(self, node: ast.For):
        self.generic_visit(node)
        it = node.iter
        if isinstance(it, ast.GeneratorExp) and len(it.generators) == 1 and not node.orelse and not it.generators[0].is_async \
                and isinstance(it.generators[0].target, ast.Name) and not any(isinstance(x, (ast.NamedExpr, ast.Yield, ast.YieldFrom, ast.Await)) for x in ast.walk(it)):
            gen = it.generators[0]
            self.rewritten += 1
            old, new = gen.target.id, f"_ge{self.rewritten}_{gen.target.id}"

            def ren(e: ast.AST) -> ast.AST:
                for x in ast.walk(e):
                    if isinstance(x, ast.Name) and x.id == old:
                        x.id = new
                return e

            pre: List[ast.stmt] = []
            for c in gen.ifs:
                pre.append(ast.copy_location(ast.If(test=_negate(ren(c)), body=[ast.copy_location(ast.Continue(), node)], orelse=[]), node))
            pre.append(ast.copy_location(ast.Assign(targets=[node.target], value=ren(it.elt)), node))
            loop = ast.copy_location(ast.For(target=ast.Name(id=new, ctx=ast.Store()), iter=gen.iter, body=pre + node.body, orelse=[]), node)
            return ast.fix_missing_locations(loop)
        return node


class _BulkAdds(ast.NodeTransformer):
    """`for v in M: acc.add(v)` -> `acc.update(M)` and `for v in M: acc.append(v)` -> `acc.extend(M)` (acc and v plain names, v used
    nowhere else in the function, M a name or attribute chain other than acc): that is what update / extend do."""
    def __init__(self):
        self.rewritten = 0

    def _fn(self, fn):
        uses: Dict[str, int] = {}
        for x in _own_nodes(fn):
            if isinstance(x, ast.Name):
                uses[x.id] = uses.get(x.id, 0) + 1
        outer = self

        class T(ast.NodeTransformer):
            def visit_FunctionDef(self_, node):
                return node if node is not fn else self_.generic_visit(node) or node

            visit_AsyncFunctionDef = visit_FunctionDef

            def visit_For(self_, node: ast.For):
                self_.generic_visit(node)
                if not node.orelse and isinstance(node.target, ast.Name) and len(node.body) == 1 and isinstance(node.body[0], ast.Expr) \
                        and isinstance(node.body[0].value, ast.Call):
                    c = node.body[0].value
                    if isinstance(c.func, ast.Attribute) and c.func.attr in ("add", "append") and isinstance(c.func.value, ast.Name) and len(c.args) == 1 \
                            and not c.keywords and isinstance(c.args[0], ast.Name) and c.args[0].id == node.target.id and uses.get(node.target.id, 0) == 2 \
                            and _pure(node.iter) and isinstance(node.iter, (ast.Name, ast.Attribute)) \
                            and not any(isinstance(x, ast.Name) and x.id == c.func.value.id for x in ast.walk(node.iter)):
                        outer.rewritten += 1
                        call = ast.Call(func=ast.Attribute(value=c.func.value, attr="update" if c.func.attr == "add" else "extend", ctx=ast.Load()),
                                        args=[node.iter], keywords=[])
                        return ast.fix_missing_locations(ast.copy_location(ast.Expr(value=call), node))
                return node

        T().visit(fn)

    def visit(self, tree: ast.AST):
        for n in ast.walk(tree):
            if isinstance(n, _FUNCS):
                self._fn(n)
        return tree


class _LoopShapes(ast.NodeTransformer):
    """Two spellings of the same loops are brought to one:
    `while True: if not C: break; BODY`  ->  `while C: BODY`            (the loop condition is a condition again)
    `for ...: PRE; if T: REST` (an `if` without else ending the body)  ->  `for ...: PRE; if not T: continue; REST`"""
    def __init__(self):
        self.changed = 0

    def visit_While(self, node: ast.While):
        self.generic_visit(node)
        if not node.orelse and isinstance(node.test, ast.Constant) and node.test.value is True and node.body and isinstance(node.body[0], ast.If) \
                and not node.body[0].orelse and len(node.body[0].body) == 1 and isinstance(node.body[0].body[0], ast.Break):
            node.test = _negate(node.body[0].test)
            node.body = node.body[1:] or [ast.copy_location(ast.Pass(), node)]
            self.changed += 1
        return self._tail(node)

    def visit_For(self, node: ast.For):
        self.generic_visit(node)
        return self._tail(node)

    visit_AsyncFor = visit_For

    def _tail(self, node):
        last = node.body[-1] if node.body else None
        if isinstance(last, ast.If) and not last.orelse and len(node.body) >= 1 and not (len(last.body) == 1 and isinstance(last.body[0], (ast.Continue, ast.Break, ast.Return, ast.Raise))):
            guard = ast.copy_location(ast.If(test=_negate(last.test), body=[ast.copy_location(ast.Continue(), last)], orelse=[]), last)
            node.body = node.body[:-1] + [guard] + last.body
            self.changed += 1
            return self._tail(node) if isinstance(node.body[-1], ast.If) and node.body[-1] is not guard else node
        return node


class _SinkTail:
    """`if C: ...; x = A` / `else: ...; x = B` followed by ONE simple statement S that is the only reader of the local x: S is moved
    (copied) to the end of every arm.  Each path then runs exactly the statements it ran before, in the same order; the arms keep
    their own `x = ...; S(x)` pair, which the folding pass turns into `S(A)` / `S(B)` where evaluation order allows.  A reply, an
    exception or a return value chosen by an if/elif/else chain thereby stays tied to the path that chose it."""

    def __init__(self):
        self.rewritten = 0

    def visit(self, tree: ast.AST) -> None:
        for fn in [n for n in ast.walk(tree) if isinstance(n, _FUNCS)]:
            loads: Dict[str, int] = {}
            stores: Dict[str, int] = {}
            for n in ast.walk(fn):
                if isinstance(n, ast.Name):
                    d = loads if isinstance(n.ctx, ast.Load) else stores
                    d[n.id] = d.get(n.id, 0) + 1
            params = {a.arg for a in fn.args.posonlyargs + fn.args.args + fn.args.kwonlyargs}
            self._blocks(fn, loads, params)

    def _arms(self, node: ast.If, name: Optional[str]):
        """leaf blocks of the if/elif/else tree when every leaf ends in `name = <expr>` (name discovered at the first leaf)"""
        out = []
        for blk in (node.body, node.orelse):
            if not blk:
                return None, None
            if len(blk) == 1 and isinstance(blk[0], ast.If) and blk is node.orelse:
                sub, name = self._arms(blk[0], name)
                if sub is None:
                    return None, None
                out += sub
                continue
            last = blk[-1]
            if not (isinstance(last, ast.Assign) and len(last.targets) == 1 and isinstance(last.targets[0], ast.Name)):
                return None, None
            if name is None:
                name = last.targets[0].id
            if last.targets[0].id != name:
                return None, None
            out.append(blk)
        return out, name

    def _blocks(self, node: ast.AST, loads, params) -> None:
        for fld in ("body", "orelse", "finalbody"):
            blk = getattr(node, fld, None)
            if isinstance(blk, list) and blk and isinstance(blk[0], ast.stmt):
                self._block(blk, loads, params)
                for st in blk:
                    if not isinstance(st, _FUNCS + (ast.ClassDef,)) or st is node:
                        self._blocks(st, loads, params)
        for h in getattr(node, "handlers", []) or []:
            self._blocks(h, loads, params)
        for c in getattr(node, "cases", []) or []:
            self._blocks(c, loads, params)

    def _block(self, blk: List[ast.stmt], loads, params) -> None:
        import copy
        i = 0
        while i + 1 < len(blk):
            st, nxt = blk[i], blk[i + 1]
            i += 1
            if not isinstance(st, ast.If) or not isinstance(nxt, (ast.Expr, ast.Return, ast.Raise, ast.Assign, ast.AnnAssign)):
                continue
            arms, name = self._arms(st, None)
            if not arms or name is None or name in params or loads.get(name, 0) != 1:
                continue
            if sum(1 for x in ast.walk(nxt) if isinstance(x, ast.Name) and x.id == name and isinstance(x.ctx, ast.Load)) != 1:
                continue
            if any(isinstance(x, ast.Name) and x.id == name and not isinstance(x.ctx, ast.Load) for x in ast.walk(nxt)):
                continue
            for arm in arms:
                arm.append(copy.deepcopy(nxt))
            del blk[i]
            self.rewritten += 1
            i -= 1


class _BoundAliases:
    """`pop = self._ended.pop` ... `pop(k, None)`: a local bound exactly once to a method of an object named by a plain attribute
    chain, read only as the function of calls, while neither the root name nor any attribute on the chain is assigned in the
    function.  Every `pop(...)` then calls that very method of that very object: written back as `self._ended.pop(k, None)` and
    the alias binding dropped (evaluating the chain has no effect of its own)."""

    def __init__(self):
        self.inlined = 0

    def visit(self, tree: ast.AST) -> None:
        for fn in [n for n in ast.walk(tree) if isinstance(n, _FUNCS)]:
            self._fn(fn)

    def _fn(self, fn) -> None:
        parent: Dict[int, ast.AST] = {}
        nodes = list(ast.walk(fn))
        for n in nodes:
            for ch in ast.iter_child_nodes(n):
                parent[id(ch)] = n
        params = {a.arg for a in fn.args.posonlyargs + fn.args.args + fn.args.kwonlyargs}
        if fn.args.vararg:
            params.add(fn.args.vararg.arg)
        if fn.args.kwarg:
            params.add(fn.args.kwarg.arg)
        scoped = {x for n in nodes if isinstance(n, (ast.Global, ast.Nonlocal)) for x in n.names}
        stores: Dict[str, List[ast.Name]] = {}
        loads: Dict[str, List[ast.Name]] = {}
        attr_written = set()
        for n in nodes:
            if isinstance(n, ast.Name):
                (loads if isinstance(n.ctx, ast.Load) else stores).setdefault(n.id, []).append(n)
            elif isinstance(n, ast.Attribute) and not isinstance(n.ctx, ast.Load):
                attr_written.add(ast.unparse(n))
            elif isinstance(n, ast.arg) and n is not fn and parent.get(id(n)) is not fn.args:
                stores.setdefault(n.arg, []).append(n)  # parameter of a nested function / lambda shadows
        own_stmts = {id(s) for s in _own_nodes(fn) if isinstance(s, ast.stmt)}
        for name, ss in list(stores.items()):
            if len(ss) != 1 or name in params or name in scoped or not isinstance(ss[0], ast.Name):
                continue
            st = parent.get(id(ss[0]))
            if not (isinstance(st, ast.Assign) and len(st.targets) == 1 and st.targets[0] is ss[0] or isinstance(st, ast.AnnAssign) and st.value is not None) \
                    or id(st) not in own_stmts:
                continue
            v = st.value
            if not (isinstance(v, ast.Attribute) and _pure_chain(v)):
                continue
            uses = loads.get(name, [])
            if not uses or not all(isinstance(parent.get(id(u)), ast.Call) and parent[id(u)].func is u for u in uses):
                continue
            root = v
            prefixes = []
            while isinstance(root, ast.Attribute):
                root = root.value
                prefixes.append(ast.unparse(root))
            rs = stores.get(root.id, [])
            if root.id in scoped or len(rs) > (0 if root.id in params else 1) or any(p in attr_written for p in prefixes) or ast.unparse(v) in attr_written:
                continue
            # only a method: the class attribute looked up on the object (a callable stored in a field may be rebound by anyone)
            holder = parent.get(id(st))
            done = False
            for fld in ("body", "orelse", "finalbody"):
                blk = getattr(holder, fld, None)
                if isinstance(blk, list) and st in blk:
                    blk.remove(st)
                    if not blk:
                        blk.append(ast.copy_location(ast.Pass(), st))
                    done = True
                    break
            if not done:
                continue
            for u in uses:
                call = parent[id(u)]
                call.func = ast.copy_location(_clone(v), u)
                for x in ast.walk(call.func):
                    ast.copy_location(x, u)
            self.inlined += 1


def _clone(e: ast.AST) -> ast.AST:
    import copy
    return copy.deepcopy(e)


def closed_generators(tree: ast.Module) -> Dict[str, ast.FunctionDef]:
    """Module-level plain generator functions (undecorated, defined once) whose bodies mention nothing but their own parameters,
    their own locals and builtins: written out in another module they mean exactly the same."""
    import builtins
    counts: Dict[str, int] = {}
    for n in ast.walk(tree):
        if isinstance(n, _FUNCS):
            counts[n.name] = counts.get(n.name, 0) + 1
    out: Dict[str, ast.FunctionDef] = {}
    for st in tree.body:
        if not (isinstance(st, ast.FunctionDef) and counts.get(st.name) == 1 and not st.decorator_list
                and any(isinstance(x, (ast.Yield, ast.YieldFrom)) for x in _own_nodes(st))):
            continue
        a = st.args
        if a.defaults or any(d is not None for d in a.kw_defaults) and not all(isinstance(d, ast.Constant) for d in a.kw_defaults if d is not None):
            if not all(isinstance(d, ast.Constant) for d in a.defaults):
                continue
        local = {x.arg for x in a.posonlyargs + a.args + a.kwonlyargs}
        body_nodes = [n for b in st.body for n in ast.walk(b)]
        local |= {n.id for n in body_nodes if isinstance(n, ast.Name) and isinstance(n.ctx, ast.Store)}
        free = {n.id for n in body_nodes if isinstance(n, ast.Name) and isinstance(n.ctx, ast.Load) and n.id not in local}
        if all(hasattr(builtins, x) for x in free) and not any(isinstance(n, (ast.Global, ast.Nonlocal)) for n in body_nodes):
            out[st.name] = st
    return out


def normalise(tree: ast.Module, imported_gens: Optional[Dict[str, ast.FunctionDef]] = None) -> ast.Module:
    gi = _GenInline(imported_gens)
    if imported_gens or any(isinstance(x, (ast.Yield, ast.YieldFrom)) for x in ast.walk(tree)):
        _Fold().visit(tree)  # (`gen = self._items(...)` followed by `for x in gen:` becomes a loop over the call)
        gi.visit(tree)
    tree._tpsa_gen_inlined = gi.inlined  # type: ignore[attr-defined]
    pc = _PrivateConsts()
    pc.visit(tree)
    if pc.inlined:
        _FoldStrings().visit(tree)
    _SplitPairs().visit(tree)
    _DeferredDefaults().visit(tree)
    mt0 = _ModuleTables(tree)
    mt0.visit(tree)
    if mt0.changed:
        # a loop over a module-level table is written out before the loop shapes are unified (which would give its body a `continue`)
        _Unroll().visit(tree)
        _ModuleTables(tree).visit(tree)
    ls = _LoopShapes()
    ls.visit(tree)
    sk = _SinkTail()
    sk.visit(tree)
    tree._tpsa_sunk = sk.rewritten  # type: ignore[attr-defined]
    ba = _BoundAliases()
    ba.visit(tree)
    tree._tpsa_bound_aliases = ba.inlined  # type: ignore[attr-defined]
    cm = _ConstMethods(tree)
    cm.visit(tree)
    pp = _PrivateProps()
    pp.visit(tree)
    tree._tpsa_private_props = pp.converted  # type: ignore[attr-defined]
    _RecordDicts().visit(tree)
    _StarDisplays().visit(tree)
    _MapCalls().visit(tree)
    f = _Fold()
    f.visit(tree)  # (`table = (...)` followed by `for row in table:` becomes a loop over the display)
    _ModuleTables(tree).visit(tree)
    u = _Unroll()
    u.visit(tree)
    _ModuleTables(tree).visit(tree)  # (`getattr(self, name)` whose name became a literal when the table was written out)
    f2 = _Fold()
    f2.visit(tree)
    gl = _GenexpLoops()
    gl.visit(tree)
    ba2 = _BulkAdds()
    ba2.visit(tree)
    if gl.rewritten or ba2.rewritten:
        _Fold().visit(tree)
    ast.fix_missing_locations(tree)
    tree._tpsa_folded = f.folded + f2.folded  # type: ignore[attr-defined]
    tree._tpsa_unrolled = u.unrolled  # type: ignore[attr-defined]
    tree._tpsa_const_methods = cm.inlined  # type: ignore[attr-defined]
    return tree
