"""Checker self-test: apply one edit per variant to a scratch copy of the package and compare verdicts.

Not a MANIFEST check.  Scratch copies live under a mkdtemp directory outside /repo and /verif and are
removed as soon as the variant has been analysed.
"""
from __future__ import annotations

import concurrent.futures as cf
import json
import os
import shutil
import sys
import tempfile
from typing import Dict, List, Tuple

from .cli import run_check

REPO = os.environ.get("TPSA_REPO", "/repo")


def make_copy(edits: List[Tuple[str, str, str]], base: str = "") -> str:
    tmp = tempfile.mkdtemp(prefix="tpsa-selftest-")
    shutil.copytree(os.path.join(REPO, "src"), os.path.join(tmp, "src"), ignore=shutil.ignore_patterns("__pycache__", "*.egg-info"))
    if base:
        # the variant edits a kept behaviour-preserving refactoring (preserving/<base>/patch.diff), not the pinned tree
        import subprocess
        patch = os.path.join(os.path.dirname(os.path.dirname(os.path.abspath(__file__))), "preserving", base, "patch.diff")
        r = subprocess.run(["git", "apply", patch], cwd=tmp, capture_output=True, text=True)
        if r.returncode != 0:
            shutil.rmtree(tmp, ignore_errors=True)
            raise ValueError(f"base patch {base} does not apply: {r.stderr[:200]}")
    for rel, old, new in edits:
        p = os.path.join(tmp, "src", "asyncio_taskpool", rel)
        s = open(p, encoding="utf-8").read()
        if s.count(old) != 1:
            shutil.rmtree(tmp, ignore_errors=True)
            raise ValueError(f"edit anchor occurs {s.count(old)} times in {rel}: {old[:60]!r}")
        open(p, "w", encoding="utf-8").write(s.replace(old, new))
        compile(open(p, encoding="utf-8").read(), p, "exec")
    return tmp


def run_variant(v: Dict) -> Dict:
    try:
        tmp = make_copy(v["edits"], v.get("base", ""))
    except Exception as e:
        return {"name": v["name"], "error": f"{type(e).__name__}: {e}"}
    res = {}
    try:
        for prop in v["props"]:
            reps: list = []
            code = run_check(prop, v.get("tier", "quick"), tmp, 0, write=False, rep_out=reps)
            rep = reps[0]
            res[prop] = {
                "code": code,
                "violations": [f"{o.rule} {o.func} {o.construct[:80]}" for o in rep.violations()],
                "inconclusive": [f"{o.rule} {o.func} {o.what[:80]} {o.detail[:100]}" for o in rep.inconclusive()] + rep.notes,
                "known": sorted({o.known for o in rep.known_hits()}),
            }
    finally:
        shutil.rmtree(tmp, ignore_errors=True)
    return {"name": v["name"], "results": res}


def main(argv=None) -> int:
    from .variants import VARIANTS

    argv = argv if argv is not None else sys.argv[1:]
    sel = [v for v in VARIANTS if not argv or any(a in v["name"] for a in argv)]
    bad = 0
    with cf.ProcessPoolExecutor(max_workers=16) as ex:
        for v, r in zip(sel, ex.map(run_variant, sel)):
            if "error" in r:
                print(f"ERROR   {v['name']}: {r['error']}")
                bad += 1
                continue
            for prop, want in v["expect"].items():
                got = r["results"][prop]
                rules = " ".join(got["violations"])
                if want == "ok":
                    good = got["code"] == 0
                elif want == "any":
                    good = True
                elif want == "alarm":
                    # the check does not pass: a violation or an obligation it could not discharge (never silently ok)
                    good = got["code"] in (1, 2)
                else:
                    good = got["code"] == 1 and (want == "viol" or want in rules)
                status = "ok     " if good else "MISMATCH"
                if not good:
                    bad += 1
                print(f"{status} {v['name']:50s} {prop} want={want} code={got['code']} {got['violations'][:3]} {got['inconclusive'][:2]}")
    print(f"selftest: {len(sel)} variants, {bad} mismatches")
    return 1 if bad else 0


if __name__ == "__main__":
    sys.exit(main())
