"""E8 — typestate / abstract interpretation over CFG x finite abstract state, with callee summaries.

The analysis explores the product of a function's CFG (all edge kinds: normal, exception,
cancellation) with a finite abstract state.  Package callees that run at a step (sync call,
await of a coroutine call, async-with enter/exit) are summarised per input state.
"""
from __future__ import annotations

import ast
from typing import Any, Callable, Dict, Hashable, Iterable, List, Optional, Set, Tuple

from .cfg import NORMAL_KINDS, Analyzer, Label, Node
from .model import FuncInfo
from .queries import EdgeFilter

ExitKey = Tuple[str, Any]
RET: ExitKey = ("ret", None)


def runs_callee(n: Node):
    """The package callee(s) whose body executes at this step, or None (also None when the body is spliced into this CFG)."""
    if n.inlined is not None:
        return None
    if n.op == "await" and n.awaited is not None and n.awaited.kind == "pkg":
        return n.awaited
    if n.op == "call" and n.callee is not None and n.callee.kind == "pkg" and n.callee.targets and all(not t.is_async for t in n.callee.targets):
        if any(isinstance(x, (ast.Yield, ast.YieldFrom)) for t in n.callee.targets for x in ast.walk(t.node) if not isinstance(x, (ast.Lambda,))):
            return None  # calling a generator function runs none of its body
        return n.callee
    if n.op in ("enter", "exit_ctx") and n.callee is not None and n.callee.kind == "pkg":
        return n.callee
    return None


class Event:
    def __init__(self, node: Node, msg: str, state, trace: List[str]):
        self.node, self.msg, self.state, self.trace = node, msg, state, trace

    def __repr__(self) -> str:
        return f"Event({self.msg} at {self.node.where()} state={self.state})"


class AbsInt:
    def __init__(
        self,
        an: Analyzer,
        transfer: Callable[["AbsInt", Node, Label, Hashable], Iterable[Hashable]],
        ef: EdgeFilter = None,
        enter: Optional[Callable[["AbsInt", Node, FuncInfo, Hashable], Optional[Hashable]]] = None,
        leave: Optional[Callable[["AbsInt", Node, FuncInfo, Hashable, Hashable], Hashable]] = None,
        at_node: Optional[Callable[["AbsInt", Node, Hashable], None]] = None,
        max_depth: int = 8,
    ):
        self.an = an
        self.transfer = transfer
        self.ef = ef
        self.enter = enter
        self.leave = leave
        self.at_node = at_node
        self.max_depth = max_depth
        self.events: List[Event] = []
        self._summ: Dict[Tuple[str, Hashable], Dict[ExitKey, Set[Hashable]]] = {}
        self._busy: Set[Tuple[str, Hashable]] = set()
        self.visited: Dict[str, Set[Tuple[int, Hashable]]] = {}
        self.product_states = 0
        self.product_edges = 0
        self._cur_pred: Dict = {}
        self._cur_f: Optional[FuncInfo] = None

    def event(self, node: Node, msg: str, state) -> None:
        tr = self.trace(node, state)
        key = (node.func.qual, id(node.ast), node.op, msg)
        for e in self.events:
            if (e.node.func.qual, id(e.node.ast), e.node.op, e.msg) == key:
                return
        self.events.append(Event(node, msg, state, tr))

    def trace(self, node: Node, state) -> List[str]:
        out: List[str] = []
        cur = (node, state)
        seen = set()
        while cur in self._cur_pred and cur not in seen:
            seen.add(cur)
            prev, lab = self._cur_pred[cur]
            k = lab[0] + (f"[{lab[1][0].rpartition('.')[2]}]" if lab[1] else "")
            out.append(f"{prev[0].where()} {prev[0].text(60)} -{k}->")
            cur = prev
        out.reverse()
        return out[-14:]

    def run(self, f: FuncInfo, init: Hashable, start: Optional[Node] = None, _depth: int = 0) -> Dict[ExitKey, Set[Hashable]]:
        key = (f.qual, init)
        if start is None and key in self._summ:
            return self._summ[key]
        if key in self._busy or _depth > self.max_depth:
            return {RET: {init}}
        self._busy.add(key)
        g = self.an.cfg(f)
        s0 = start or g.entry
        seen: Set[Tuple[Node, Hashable]] = {(s0, init)}
        work: List[Tuple[Node, Hashable]] = [(s0, init)]
        pred: Dict = {}
        out: Dict[ExitKey, Set[Hashable]] = {}
        vis = self.visited.setdefault(f.qual, set())
        while work:
            n, st = work.pop()
            vis.add((n.id, st))
            saved = (self._cur_pred, self._cur_f)
            self._cur_pred, self._cur_f = pred, f
            if self.at_node is not None:
                self.at_node(self, n, st)
            if n is g.exit:
                out.setdefault(RET, set()).add(st)
                self._cur_pred, self._cur_f = saved
                continue
            if n.op == "raise_exit":
                out.setdefault((n.kind, n.tok), set()).add(st)
                self._cur_pred, self._cur_f = saved
                continue
            cal = runs_callee(n)
            callee_out: Optional[Dict[ExitKey, Set[Hashable]]] = None
            if cal is not None and self.enter is not None:
                callee_out = {}
                for t in cal.targets:
                    cst = self.enter(self, n, t, st)
                    if cst is None:
                        callee_out = None
                        break
                    sub = self.run(t, cst, None, _depth + 1)
                    for k, v in sub.items():
                        for s2 in v:
                            callee_out.setdefault(k, set()).add(self.leave(self, n, t, st, s2) if self.leave else s2)
            for s, lab in n.succ:
                if self.ef is not None and not self.ef(n, s, lab):
                    continue
                if callee_out is not None:
                    ck = RET if lab[0] in NORMAL_KINDS else lab
                    ins = callee_out.get(ck, set())
                else:
                    ins = {st}
                for s_in in ins:
                    for s_out in self.transfer(self, n, lab, s_in):
                        self.product_edges += 1
                        item = (s, s_out)
                        if item not in seen:
                            seen.add(item)
                            pred[item] = ((n, st), lab)
                            work.append(item)
            self._cur_pred, self._cur_f = saved
        self.product_states += len(seen)
        self._busy.discard(key)
        if start is None:
            self._summ[key] = out
        return out


def enumerate_paths(ai: AbsInt, f: FuncInfo, init: Hashable, limit: int = 2_000_000, _depth: int = 0):
    """Thorough tier: explicit enumeration of every acyclic path (in the product CFG x state, callees inlined) from the
    entry of f; an independent traversal strategy cross-checking the worklist fixpoint of AbsInt.run.
    Returns (list of (exit key, end state), number of paths, truncated?)."""
    g = ai.an.cfg(f)
    ends: Dict[Tuple[ExitKey, Hashable], int] = {}
    count = [0]
    truncated = [False]
    callee_cache: Dict[Tuple[str, Hashable], List[Tuple[ExitKey, Hashable, int]]] = {}

    def callee_paths(t: FuncInfo, cst: Hashable, depth: int) -> List[Tuple[ExitKey, Hashable, int]]:
        key = (t.qual, cst)
        if key not in callee_cache:
            sub_ends, _, tr = _enum(t, cst, depth + 1)
            if tr:
                truncated[0] = True
            callee_cache[key] = [(k, s, c) for (k, s), c in sub_ends.items()]
        return callee_cache[key]

    def _enum(fn: FuncInfo, st0: Hashable, depth: int):
        gg = ai.an.cfg(fn)
        local_ends: Dict[Tuple[ExitKey, Hashable], int] = {}
        n_paths = 0
        tr = False
        # iterative DFS with an explicit path-visited set
        stack: List[Tuple[Node, Hashable, int, frozenset]] = [(gg.entry, st0, 1, frozenset())]
        while stack:
            n, st, mult, seen = stack.pop()
            if n_paths > limit:
                tr = True
                break
            if n is gg.exit:
                local_ends[(RET, st)] = local_ends.get((RET, st), 0) + mult
                n_paths += mult
                continue
            if n.op == "raise_exit":
                k = (n.kind, n.tok)
                local_ends[(k, st)] = local_ends.get((k, st), 0) + mult
                n_paths += mult
                continue
            if (n.id, st) in seen:
                continue  # acyclic paths only
            seen2 = seen | {(n.id, st)}
            cal = runs_callee(n)
            outs: List[Tuple[Optional[ExitKey], Hashable, int]] = []
            if cal is not None and ai.enter is not None and depth < ai.max_depth:
                ok = True
                tmp: List[Tuple[Optional[ExitKey], Hashable, int]] = []
                for t in cal.targets:
                    cst = ai.enter(ai, n, t, st)
                    if cst is None:
                        ok = False
                        break
                    for k, s2, c in callee_paths(t, cst, depth):
                        tmp.append((k, ai.leave(ai, n, t, st, s2) if ai.leave else s2, c))
                outs = tmp if ok else [(None, st, 1)]
            else:
                outs = [(None, st, 1)]
            for s, lab in n.succ:
                if ai.ef is not None and not ai.ef(n, s, lab):
                    continue
                for k, s_in, c in outs:
                    if k is not None:
                        ck = RET if lab[0] in NORMAL_KINDS else lab
                        if k != ck:
                            continue
                    for s_out in ai.transfer(ai, n, lab, s_in):
                        stack.append((s, s_out, mult * c, seen2))
        return local_ends, n_paths, tr

    ends, total, tr = _enum(f, init, _depth)
    return ends, total, (tr or truncated[0])
