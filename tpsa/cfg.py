"""E4 — per-function control-flow graphs at evaluation-step granularity.

Edges carry a label (kind, token): kind 'n' normal, 'T'/'F' branch outcomes, 'x' exception,
'c' cancellation (a CancelledError delivered at a suspension step).  `finally` bodies and
context-manager exits are instantiated once per continuation they resume.
"""
from __future__ import annotations

import ast
from dataclasses import dataclass, field
from typing import Callable, Dict, Iterable, List, Optional, Set, Tuple

from .exc import BASE, CANCELLED, EXCEPTION, KEYERROR, ExcHier, ExcTok
from .model import AnalysisError, FuncInfo, Program
from .resolve import Callee, Resolver, Scope, Ty, access_path

Label = Tuple[str, Optional[ExcTok]]
N: Label = ("n", None)
T: Label = ("T", None)
F: Label = ("F", None)

NORMAL_KINDS = ("n", "T", "F")


class Node:
    __slots__ = (
        "id", "func", "op", "ast", "stmt", "callee", "awaited", "suspends", "user", "tag", "types",
        "succ", "pred", "cond", "tok", "kind", "comp", "loops", "awaited_user", "handler_of", "try_id", "inlined", "env", "root", "benv", "assume",
    )

    def __init__(self, nid: int, func: FuncInfo, op: str, node: Optional[ast.AST] = None, stmt: Optional[ast.AST] = None):
        self.id = nid
        self.func = func
        self.op = op
        self.ast = node
        self.stmt = stmt
        self.callee: Optional[Callee] = None  # for op == 'call'
        self.awaited: Optional[Callee] = None  # for op == 'await' of a direct call
        self.awaited_user = False  # await of a user-supplied awaitable
        self.suspends = False
        self.user = False  # user code runs at this step
        self.tag: Tuple = ()  # stack of (try_id, resumed continuation) for finally/with-exit copies
        self.types: List[str] = []  # handler classes for op == 'handler' / suppressed classes
        self.succ: List[Tuple["Node", Label]] = []
        self.pred: List[Tuple["Node", Label]] = []
        self.cond = False  # conditionally evaluated inside its statement (IfExp / BoolOp operand)
        self.tok: Optional[ExcTok] = None  # raise_exit / reraise
        self.kind: str = ""  # raise_exit: 'x' | 'c'
        self.comp = False  # inside a comprehension body
        self.loops: Tuple = ()  # enclosing loop statements (ast nodes)
        self.handler_of = None
        self.try_id = None
        self.inlined: Optional[FuncInfo] = None  # call/await step whose package callee's body is spliced in right after it
        self.root: FuncInfo = func  # the function whose CFG this step belongs to (differs from func inside a spliced body)
        self.benv = None  # at the step that enters a spliced body: the env of that body
        self.assume = None  # built under return-value specialisation: (function, local) -> (helper frame, its env, the value the helper returned)
        self.env = None  # inside a spliced body: parameter name -> (caller function, argument expression, caller env)

    @property
    def line(self) -> int:
        n = self.ast if self.ast is not None and hasattr(self.ast, "lineno") else self.stmt
        return getattr(n, "lineno", 0)

    def text(self, limit: int = 110) -> str:
        n = self.ast
        if n is None:
            return self.op
        try:
            if isinstance(n, ast.ExceptHandler):
                s = "except " + (ast.unparse(n.type) if n.type is not None else "")
            elif isinstance(n, (ast.For, ast.AsyncFor)):
                s = f"for {ast.unparse(n.target)} in {ast.unparse(n.iter)}"
            elif isinstance(n, (ast.With, ast.AsyncWith)):
                s = ("async with " if isinstance(n, ast.AsyncWith) else "with ") + ", ".join(ast.unparse(i) for i in n.items)
            elif isinstance(n, ast.withitem):
                s = ast.unparse(n)
            elif isinstance(n, ast.comprehension):
                s = f"for {ast.unparse(n.target)} in {ast.unparse(n.iter)}"
            elif isinstance(n, (ast.FunctionDef, ast.AsyncFunctionDef)):
                s = f"def {n.name}"
            else:
                s = ast.unparse(n)
        except Exception:
            s = type(n).__name__
        s = " ".join(s.split())
        return s if len(s) <= limit else s[: limit - 3] + "..."

    def __repr__(self) -> str:
        return f"<{self.id}:{self.op}@{self.line} {self.text(60)}>"

    def where(self) -> str:
        return f"{self.func.module.relpath}:{self.line}"


class Ctx:
    __slots__ = ("ret", "brk", "cont", "raise_", "caught", "ret_for")

    def __init__(self, ret, brk, cont, raise_, caught=None, ret_for=None):
        self.ret = ret
        self.brk = brk
        self.cont = cont
        self.raise_ = raise_
        self.caught = caught  # handler classes when inside an except body
        self.ret_for = ret_for  # spliced into `raise helper(...)`: continuation of one particular `return <exc>` of the helper


@dataclass
class Item:
    """One evaluation step of an expression, or a comprehension with outer/inner sub-steps."""
    kind: str  # 'step' | 'comp'
    node: ast.AST
    cond: bool = False
    inner: List["Item"] = field(default_factory=list)


def strip_cast(e: ast.AST) -> ast.AST:
    while (
        isinstance(e, ast.Call)
        and isinstance(e.func, ast.Name)
        and e.func.id == "cast"
        and len(e.args) == 2
    ):
        e = e.args[1]
    return e


def linearise(e: Optional[ast.AST], cond: bool = False) -> List[Item]:
    """Evaluation steps of an expression in evaluation order."""
    out: List[Item] = []
    if e is None:
        return out
    if isinstance(e, (ast.Lambda, ast.FunctionDef, ast.AsyncFunctionDef, ast.ClassDef)):
        return out
    if isinstance(e, ast.Await):
        out += linearise(e.value, cond)
        out.append(Item("step", e, cond))
        return out
    if isinstance(e, ast.Call):
        out += linearise(e.func, cond)
        for a in e.args:
            out += linearise(a, cond)
        for k in e.keywords:
            out += linearise(k.value, cond)
        out.append(Item("step", e, cond))
        return out
    if isinstance(e, ast.IfExp):
        out += linearise(e.test, cond)
        out += linearise(e.body, True)
        out += linearise(e.orelse, True)
        return out
    if isinstance(e, ast.BoolOp):
        for i, v in enumerate(e.values):
            out += linearise(v, cond or i > 0)
        return out
    if isinstance(e, (ast.ListComp, ast.SetComp, ast.GeneratorExp, ast.DictComp)):
        gens = e.generators
        out += linearise(gens[0].iter, cond)
        inner: List[Item] = []
        for i, g in enumerate(gens):
            if i > 0:
                inner += linearise(g.iter)
            for c in g.ifs:
                inner += linearise(c)
        if isinstance(e, ast.DictComp):
            inner += linearise(e.key) + linearise(e.value)
        else:
            inner += linearise(e.elt)
        out.append(Item("comp", e, cond, inner))
        return out
    if isinstance(e, ast.Subscript):
        out += linearise(e.value, cond)
        out += linearise(e.slice, cond)
        if isinstance(e.ctx, ast.Load):
            out.append(Item("step", e, cond))
        return out
    if isinstance(e, (ast.Yield, ast.YieldFrom)):
        out += linearise(e.value, cond)
        out.append(Item("step", e, cond))
        return out
    if isinstance(e, ast.BinOp) and isinstance(e.op, ast.Mod) and isinstance(e.left, (ast.Constant, ast.JoinedStr)) \
            and (isinstance(e.left, ast.JoinedStr) or isinstance(e.left.value, str)) and not isinstance(e.right, (ast.Tuple, ast.Dict)):
        # "<template>" % value: with a value the caller knows nothing about this is a step that can fail (a tuple is taken for
        # the argument list: TypeError unless its length fits)
        out += linearise(e.left, cond) + linearise(e.right, cond)
        out.append(Item("step", e, cond))
        return out
    for ch in ast.iter_child_nodes(e):
        if isinstance(ch, ast.expr) or isinstance(ch, (ast.keyword, ast.Starred, ast.FormattedValue, ast.Slice)):
            out += linearise(ch, cond)
    return out


class CFG:
    def __init__(self, func: FuncInfo):
        self.func = func
        self.nodes: List[Node] = []
        self.entry: Node = None  # type: ignore
        self.exit: Node = None  # type: ignore
        self.raise_exits: Dict[Tuple[str, ExcTok], Node] = {}
        self.unsupported: List[str] = []

    def steps(self, op: Optional[str] = None) -> List[Node]:
        return [n for n in self.nodes if op is None or n.op == op]

    def exits(self) -> List[Node]:
        return [self.exit] + list(self.raise_exits.values())

    def dump(self) -> str:
        lines = []
        for n in self.nodes:
            flags = "".join([
                "S" if n.suspends else "", "U" if n.user else "", "?" if n.cond else "", "*" if n.comp else "",
            ])
            tag = f" tag={[(t[1][0], ExcHier.short(t[1][1][0]) if t[1][1] else '') for t in n.tag]}" if n.tag else ""
            lines.append(f"{n.id:3d} {n.op:10s} L{n.line:<5d} {flags:3s} {n.text(70)}{tag}")
            for s, (k, tok) in n.succ:
                lines.append(f"      -{k}{'[' + ExcHier.short(tok[0]) + ('' if tok[1] else '+') + ']' if tok else ''}-> {s.id}")
        return "\n".join(lines)


def _always_leaves(stmts: List[ast.stmt]) -> bool:
    """control cannot fall off the end of this statement list (it ends in return / raise on every path)"""
    if not stmts:
        return False
    last = stmts[-1]
    if isinstance(last, (ast.Return, ast.Raise)):
        return True
    if isinstance(last, ast.If):
        return _always_leaves(last.body) and _always_leaves(last.orelse)
    if isinstance(last, ast.Try):
        if last.finalbody and _always_leaves(last.finalbody):
            return True
        main = _always_leaves(last.orelse) if last.orelse else _always_leaves(last.body)
        return main and all(_always_leaves(h.body) for h in last.handlers)
    if isinstance(last, (ast.With, ast.AsyncWith)):
        return _always_leaves(last.body) and not any(isinstance(i.context_expr, ast.Call) and getattr(i.context_expr.func, "id", getattr(i.context_expr.func, "attr", "")) == "suppress"
                                                      for i in last.items)
    if isinstance(last, ast.While) and isinstance(last.test, ast.Constant) and last.test.value is True:
        return not any(isinstance(x, ast.Break) for x in ast.walk(last))
    return False


def first_lambda_ok(lam: ast.Lambda, call: ast.Call) -> bool:
    """a parameterless lambda called without arguments (the only lambda calls given a stand-in)"""
    a = lam.args
    return not (a.posonlyargs or a.args or a.kwonlyargs or a.vararg or a.kwarg or call.args or call.keywords)


def bind_args(call: ast.Call, t: FuncInfo, caller: FuncInfo, caller_env):
    """parameter name -> (caller, argument expression, caller env) for the arguments that can be matched syntactically"""
    a = t.node.args
    pos = [p.arg for p in a.posonlyargs + a.args]
    env = {}
    if t.cls is not None and t.kind not in ("static",) and pos:
        recv = call.func.value if isinstance(call.func, ast.Attribute) else None
        if recv is not None:
            env[pos[0]] = (caller, recv, caller_env)
        pos = pos[1:]
    for i, arg in enumerate(call.args):
        if isinstance(arg, ast.Starred):
            break
        if i < len(pos):
            env[pos[i]] = (caller, arg, caller_env)
    names = set(pos) | {p.arg for p in a.kwonlyargs}
    for kw in call.keywords:
        if kw.arg is not None and kw.arg in names:
            env[kw.arg] = (caller, kw.value, caller_env)
    if not any(isinstance(x, ast.Starred) for x in call.args) and not any(kw.arg is None for kw in call.keywords):
        # a flag parameter the call leaves out has its literal default
        plain = a.posonlyargs + a.args
        for p_, d_ in list(zip(plain[len(plain) - len(a.defaults):], a.defaults)) + [(p_, d_) for p_, d_ in zip(a.kwonlyargs, a.kw_defaults) if d_ is not None]:
            if p_.arg not in env and isinstance(d_, ast.Constant) and (d_.value is None or isinstance(d_.value, bool)):
                env[p_.arg] = (caller, d_, caller_env)
    # *args / **kwargs of the helper: the surplus arguments of this call, as a tuple / dictionary display (one per call site)
    if a.vararg is not None and not any(isinstance(x, ast.Starred) for x in call.args):
        key = (id(call), "va")
        if key not in _SURPLUS:
            _SURPLUS[key] = ast.copy_location(ast.Tuple(elts=list(call.args[len(pos):]), ctx=ast.Load()), call)
        env[a.vararg.arg] = (caller, _SURPLUS[key], caller_env)
    if a.kwarg is not None and not any(kw.arg is None for kw in call.keywords):
        key = (id(call), "kw")
        if key not in _SURPLUS:
            extra = [kw for kw in call.keywords if kw.arg not in names]
            _SURPLUS[key] = ast.copy_location(ast.Dict(keys=[ast.Constant(value=kw.arg) for kw in extra], values=[kw.value for kw in extra]), call)
        env[a.kwarg.arg] = (caller, _SURPLUS[key], caller_env)
    return env


_SURPLUS: Dict[tuple, ast.AST] = {}


def load_known_funcs() -> Optional[Set[str]]:
    """The functions the rules were written against (frozen from the pinned tree).  A package function that is NOT in this
    table is a helper the rules know nothing about: its body is spliced into the CFG of its callers, so extracting code into
    a new helper (or a new helper's misbehaviour) is analysed as if it were written in place."""
    import os

    path = os.path.join(os.path.dirname(os.path.abspath(__file__)), "known_funcs.txt")
    try:
        with open(path) as fh:
            return {ln.strip() for ln in fh if ln.strip() and not ln.startswith("#")}
    except OSError:
        return None


class Analyzer:
    """Builds and caches CFGs and interprocedural summaries for the whole program."""

    def __init__(self, prog: Program):
        self.prog = prog
        self.res = Resolver(prog)
        self.hier = ExcHier(prog)
        self._cfgs: Dict[str, CFG] = {}
        self.known_funcs: Optional[Set[str]] = load_known_funcs()
        self.inlined_calls: List[Tuple[str, str, int]] = []
        self.spliced_at: Dict[int, FuncInfo] = {}  # id(call expression) -> helper spliced there
        self.partial_syn: Dict[tuple, ast.Call] = {}  # id(call of a partial object) -> the equivalent direct call F(frozen args + own args)
        self.live_returns: Dict[int, Set[int]] = {}  # id(call of a spliced helper) -> ids of the helper's Return statements built for it
        self.syn_callee: Dict[int, Callee] = {}  # id(stand-in call) -> what it calls
        self.syn_by_call: Dict[int, List[ast.Call]] = {}  # call made through a callable value -> the stand-in calls that spell it out
        self.syn_arg_frame: Dict[int, tuple] = {}  # argument of a stand-in call written in another frame -> (function, env) of that frame
        self.partial_frame: Dict[tuple, tuple] = {}  # ... and the frame (function, env) in which the partial was built
        self.await_syn: Dict[int, ast.Await] = {}
        self.awaited_via: Dict[int, ast.Call] = {}  # id(await expression) -> the call whose result it awaits through a local
        self.threaded: Set[int] = set()  # id(call expression) of spliced boolean helpers whose returns continue directly at the caller's branches
        self.env_site: Dict[int, int] = {}  # id(env of a spliced body) -> id(call expression)  # (caller, helper) pairs spliced, for the evidence
        self._summ: Dict[str, "Summary"] = {}
        self._summ_busy: Set[str] = set()

    def scope(self, f: FuncInfo) -> Scope:
        return self.res.scope(f)

    def cfg(self, f: FuncInfo) -> CFG:
        g = self._cfgs.get(f.qual)
        if g is None:
            g = Builder(self, f).build()
            self._cfgs[f.qual] = g
        return g

    def is_generator(self, f: FuncInfo) -> bool:
        c = self.__dict__.setdefault("_gen_cache", {})
        if f.qual not in c:
            c[f.qual] = any(isinstance(x, (ast.Yield, ast.YieldFrom)) for x in self.scope(f)._own_nodes())
        return c[f.qual]

    def hide_spliced_helpers(self) -> Set[str]:
        """Build every CFG; helpers (functions outside the frozen table) whose every mention in the package is a call that
        was spliced into the caller are analysed only in place and are dropped from `prog.all_functions()`."""
        if self.known_funcs is None:
            return set()
        for f in list(self.prog.functions.values()):
            self.cfg(f)
        sites: Dict[str, Set[int]] = {}
        for caller, helper, call_id in self.inlined_calls:
            sites.setdefault(helper, set()).add(call_id)
        hidden: Set[str] = set()
        if sites:
            mentions: Dict[str, int] = {}
            names = {self.prog.functions[q].name: q for q in sites}
            for m in self.prog.modules.values():
                for x in ast.walk(m.tree):
                    nm = x.attr if isinstance(x, ast.Attribute) else x.id if isinstance(x, ast.Name) else None
                    if nm in names and isinstance(getattr(x, "ctx", None), ast.Load):
                        mentions[names[nm]] = mentions.get(names[nm], 0) + 1
            for q, ids in sites.items():
                same_name = [k for k in self.prog.functions.values() if k.name == self.prog.functions[q].name]
                if len(same_name) == 1 and mentions.get(q, 0) == len(ids):
                    hidden.add(q)
        self.prog.hidden = hidden
        return hidden

    # ------------------------------------------------------------- summaries
    def summary(self, f: FuncInfo) -> "Summary":
        s = self._summ.get(f.qual)
        if s is not None:
            return s
        if f.qual in self._summ_busy:
            return Summary(set(), False, False, recursive=True)
        self._summ_busy.add(f.qual)
        try:
            g = self.cfg(f)
            raises = {(n.kind, n.tok) for n in g.raise_exits.values() if n.pred}
            susp = any(n.suspends for n in g.nodes if self._reachable_from_entry(g, n))
            user = any(n.user for n in g.nodes)
            s = Summary(raises, susp, user)
        finally:
            self._summ_busy.discard(f.qual)
        self._summ[f.qual] = s
        return s

    @staticmethod
    def _reachable_from_entry(g: CFG, n: Node) -> bool:
        return bool(n.pred) or n is g.entry

    def callee_summary(self, cal: Callee) -> "Summary":
        raises: Set = set()
        susp = user = False
        for t in cal.targets:
            s = self.summary(t)
            raises |= s.raises
            susp |= s.suspends
            user |= s.user
        return Summary(raises, susp, user)


@dataclass
class Summary:
    raises: Set[Tuple[str, ExcTok]]
    suspends: bool
    user: bool
    recursive: bool = False


# stdlib calls that raise on bad input (E4 may-raise table, item e)
_EXT_RAISES: Dict[str, List[ExcTok]] = {
    "json.loads": [("builtins.ValueError", False), ("builtins.TypeError", True)],
    "ast.literal_eval": [(EXCEPTION, False)],
    "importlib.import_module": [(EXCEPTION, False)],
    "builtins.getattr": [("builtins.AttributeError", True)],
    "builtins.int": [("builtins.ValueError", True), ("builtins.TypeError", True)],
    "builtins.float": [("builtins.ValueError", True), ("builtins.TypeError", True)],
    "builtins.next": [("builtins.StopIteration", True)],
    "inspect.signature": [("builtins.ValueError", True), ("builtins.TypeError", True)],
    "shlex.split": [("builtins.ValueError", True)],  # unbalanced quotes, trailing backslash
    # asking a task / future for its outcome raises it: the exception it ended with (result), CancelledError when it was cancelled,
    # InvalidStateError when it is not done
    "Task.exception": [(CANCELLED, True), ("asyncio.exceptions.InvalidStateError", True)],
    "Future.exception": [(CANCELLED, True), ("asyncio.exceptions.InvalidStateError", True)],
    "Task.result": [(EXCEPTION, False), (CANCELLED, True)],
    "Future.result": [(EXCEPTION, False), (CANCELLED, True)],
    "textwrap.fill": [("builtins.ValueError", True)],  # width <= 0, placeholder wider than the width
    "textwrap.wrap": [("builtins.ValueError", True)],
    "textwrap.shorten": [("builtins.ValueError", True)],
    "textwrap.TextWrapper.fill": [("builtins.ValueError", True)],
    "textwrap.TextWrapper.wrap": [("builtins.ValueError", True)],
    "Path.unlink": [("builtins.OSError", False)],
    # what a ControlParser raises on purpose (exact tokens: routed to the handler that names them) + anything else
    "argparse.ArgumentParser.parse_args": [("argparse.ArgumentError", True), ("exceptions.HelpRequested", True), ("exceptions.ParserError", True), (EXCEPTION, False)],
    "argparse.ArgumentParser.parse_known_args": [("argparse.ArgumentError", True), ("exceptions.HelpRequested", True), ("exceptions.ParserError", True), (EXCEPTION, False)],
    "list.remove": [("builtins.ValueError", True)],
    "set.remove": [(KEYERROR, True)],
    "dict.__delitem__": [(KEYERROR, True)],
}
# suspension points of the standard library and what, besides cancellation, they can raise
_EXT_AWAIT_RAISES: Dict[str, List[ExcTok]] = {
    "Semaphore.acquire": [], "Lock.acquire": [], "Event.wait": [], "Queue.get": [], "Queue.put": [], "Queue.join": [],
    "asyncio.tasks.sleep": [], "asyncio.sleep": [],
    "StreamReader.readline": [(EXCEPTION, False)], "StreamReader.read": [(EXCEPTION, False)],
    "StreamWriter.drain": [(EXCEPTION, False)], "StreamWriter.wait_closed": [(EXCEPTION, False)],
    "Server.serve_forever": [(EXCEPTION, False)], "Server.wait_closed": [],
    "asyncio.streams.start_server": [(EXCEPTION, False)], "asyncio.streams.start_unix_server": [(EXCEPTION, False)],
    "asyncio.streams.open_connection": [(EXCEPTION, False)], "asyncio.streams.open_unix_connection": [(EXCEPTION, False)],
}
_GATHER = ("asyncio.tasks.gather", "asyncio.gather")


def literal_true(e: Optional[ast.AST]) -> bool:
    return isinstance(e, ast.Constant) and e.value is True


class Builder:
    def __init__(self, an: Analyzer, f: FuncInfo):
        self.an = an
        self.f = f
        self.sc = an.scope(f)
        self.hier = an.hier
        self.g = CFG(f)
        self.tag_stack: List[Tuple] = []
        self.loop_stack: List[ast.AST] = []
        self._try_counter = 0
        self.root_f = f
        self.env = None
        self.inline_stack: List[str] = []
        self.assume_at: Dict[tuple, tuple] = {}  # (function, local) -> (helper, helper env, returned expression) under the current assumptions
        self.test_subst: Dict[int, ast.AST] = {}  # id(If statement) -> the condition its flag local stands for
        self.assume: Dict[Tuple[str, str], bool] = {}  # (function, local flag) -> truth value known in the statements being built

    # --------------------------------------------------------------- helpers
    def mk(self, op: str, node: Optional[ast.AST] = None, stmt: Optional[ast.AST] = None) -> Node:
        n = Node(len(self.g.nodes), self.f, op, node, stmt)
        n.tag = tuple(self.tag_stack)
        n.loops = tuple(self.loop_stack)
        n.env = self.env
        n.root = self.root_f
        if self.assume_at:
            n.assume = dict(self.assume_at)
        self.g.nodes.append(n)
        return n

    @staticmethod
    def edge(a: Node, b: Node, label: Label = N) -> None:
        a.succ.append((b, label))
        b.pred.append((a, label))

    def raise_exit(self, kind: str, tok: ExcTok) -> Node:
        key = (kind, tok)
        n = self.g.raise_exits.get(key)
        if n is None:
            saved, self.tag_stack = self.tag_stack, []
            frame = self._frame()
            self.f, self.sc, self.env = self.root_f, self.an.scope(self.root_f), None
            n = self.mk("raise_exit")
            self._restore(frame)
            self.tag_stack = saved
            n.tag = ()
            n.tok, n.kind = tok, kind
            self.g.raise_exits[key] = n
        return n

    def add_raises(self, n: Node, ctx: Ctx, toks: Iterable[Tuple[str, ExcTok]]) -> None:
        seen = set()
        for kind, tok in toks:
            if (kind, tok) in seen:
                continue
            seen.add((kind, tok))
            for tgt in ctx.raise_(tok, kind):
                self.edge(n, tgt, (kind, tok))

    # -------------------------------------------------------------- may-raise
    def _guarded_by_loop_test(self, recv: Optional[ast.AST]) -> bool:
        if recv is None:
            return False
        txt = ast.unparse(recv)
        for lp in reversed(self.loop_stack):
            if isinstance(lp, ast.While) and ast.unparse(lp.test) == txt:
                return True
        return False

    def call_raises(self, n: Node, call: ast.Call, cal: Callee) -> List[Tuple[str, ExcTok]]:
        out: List[Tuple[str, ExcTok]] = []
        if cal.kind == "user":
            n.user = True
            out.append(("x", (EXCEPTION, False)))
        elif cal.kind == "pkg":
            if all(not t.is_async for t in cal.targets) and not any(self.an.is_generator(t) for t in cal.targets):
                # (calling an async function or a generator function only creates the coroutine / generator object)
                s = self.an.callee_summary(cal)
                n.user = s.user
                n.suspends = False
                out += sorted(s.raises)
            # calling an async function only creates the coroutine object
        elif cal.kind == "ctor":
            if cal.cls is not None and not self.hier.is_sub(cal.cls.qual, BASE):
                init = self.an.prog.lookup(cal.cls, "__init__")
                if init is not None:
                    s = self.an.summary(init)
                    n.user = s.user
                    out += sorted(s.raises)
        elif cal.kind == "ext":
            nm = cal.name
            meth = nm.rpartition(".")[2]
            rt = cal.recv_ty.head if cal.recv_ty is not None else None
            if rt == "dict" and meth == "pop" and len(call.args) == 1 and not call.keywords:
                if not (cal.recv is not None and self._guarded_member(call, cal.recv, call.args[0])):
                    out.append(("x", (KEYERROR, True)))
            elif meth in ("pop", "popitem") and (rt in ("set", "dict") or (cal.recv_ty is not None and rt in self.an.prog.classes)) and not call.args:
                if not self._guarded_by_loop_test(cal.recv):
                    out.append(("x", (KEYERROR, True)))
            elif nm in _EXT_RAISES:
                if not (nm == "builtins.getattr" and len(call.args) == 3):
                    out += [("x", t) for t in _EXT_RAISES[nm]]
            elif nm.startswith("super(") and meth in ("error",):
                pass
        elif cal.kind == "unknown" and isinstance(call.func, ast.Attribute) and self._is_user_value(call.func.value):
            # a method of an object the user handed in
            n.user = True
            out.append(("x", (EXCEPTION, False)))
        return out

    def _awaited_expr(self, aw: ast.Await) -> ast.AST:
        """what is awaited: the operand, or - `c = f(...)` ... `await c` with c bound once and used nowhere else - that call"""
        inner = strip_cast(aw.value)
        if isinstance(inner, ast.Name) and inner.id not in self.sc.params:
            hows = self.sc.defs.get(inner.id, [])
            if len(hows) == 1 and hows[0][0] in ("assign", "ann"):
                val = hows[0][1] if hows[0][0] == "assign" else hows[0][2]
                val = strip_cast(val) if val is not None else None
                uses = [x for x in ast.walk(self.f.node) if isinstance(x, ast.Name) and x.id == inner.id and isinstance(x.ctx, ast.Load)]
                if isinstance(val, ast.Call) and len(uses) == 1:
                    self.an.awaited_via[id(aw)] = val
                    return val
        return inner

    def await_raises(self, n: Node, aw: ast.Await) -> List[Tuple[str, ExcTok]]:
        out: List[Tuple[str, ExcTok]] = []
        inner = self._awaited_expr(aw)
        n.suspends = True
        if isinstance(inner, ast.Call):
            cal = self._assumed_callee(inner) or self._partial_callee(inner) or self.sc.callee(inner)
            n.awaited = cal
            if cal.kind == "pkg":
                s = self.an.callee_summary(cal)
                n.user = s.user
                n.suspends = s.suspends
                out += sorted(s.raises)
                if s.recursive:
                    out.append(("c", (CANCELLED, True)))
                return out
            if cal.kind == "user":
                n.user = True
                n.awaited_user = True
                out.append(("x", (EXCEPTION, False)))
            elif cal.kind == "ext":
                if cal.name in _GATHER:
                    re_kw = [k.value for k in inner.keywords if k.arg == "return_exceptions"]
                    if not (re_kw and literal_true(re_kw[0])):
                        out.append(("x", (EXCEPTION, False)))
                        # a cancelled member surfaces as CancelledError without the awaiting task being cancelled
                        out.append(("x", (CANCELLED, True)))
                elif cal.name in _EXT_AWAIT_RAISES:
                    out += [("x", t) for t in _EXT_AWAIT_RAISES[cal.name]]
                else:
                    out.append(("x", (EXCEPTION, False)))
            else:
                out.append(("x", (EXCEPTION, False)))
        else:
            # await of a value: a user-supplied awaitable if it is a parameter, else an opaque future
            if isinstance(inner, ast.Name) and self.sc._is_user_callable_name(inner.id):
                n.user = True
                n.awaited_user = True
                out.append(("x", (EXCEPTION, False)))
            elif isinstance(inner, ast.Name) or isinstance(inner, ast.Attribute):
                t = self.sc.ty(inner)
                if (t is not None and t.head == "UserValue") or self._is_user_value(inner):
                    # (a value typed Any / object is something the user's code produced)
                    n.user = True
                    n.awaited_user = True
                out.append(("x", (EXCEPTION, False)))
            else:
                out.append(("x", (EXCEPTION, False)))
        out.append(("c", (CANCELLED, True)))
        return out

    def subscript_raises(self, n: Node, sub: ast.Subscript) -> List[Tuple[str, ExcTok]]:
        t = self.sc.ty(sub.value)
        if t is not None and t.head == "dict":
            if self._key_known_present(sub.value, sub.slice, at=sub):
                return []
            return [("x", (KEYERROR, True))]
        return []

    # -- membership guards: `if k in D: ... D[k]` / `if k not in D: return ...` followed by D[k]
    def _parents(self) -> Dict[int, Tuple[ast.AST, str, int]]:
        pm = getattr(self.sc, "_parent_map", None)
        if pm is None:
            pm = {}
            stack = [self.f.node]
            while stack:
                x = stack.pop()
                for fld, val in ast.iter_fields(x):
                    if isinstance(val, list):
                        for i, ch in enumerate(val):
                            if isinstance(ch, ast.AST):
                                pm[id(ch)] = (x, fld, i)
                                stack.append(ch)
                    elif isinstance(val, ast.AST):
                        pm[id(val)] = (x, fld, -1)
                        stack.append(val)
            self.sc._parent_map = pm
        return pm

    _QUIET_CALLS = ("len", "str", "repr", "isinstance", "int", "bool", "type", "id", "cast")

    def _quiet(self, stmts: List[ast.stmt], container_txt: str, key_txt: str) -> bool:
        """No suspension, no removal from the container and no re-binding of the key in these statements."""
        for st in stmts:
            for x in ast.walk(st):
                if isinstance(x, (ast.Await, ast.Yield, ast.YieldFrom, ast.Delete, ast.AsyncFor, ast.AsyncWith)):
                    return False
                if isinstance(x, ast.Call):
                    fn = x.func
                    if isinstance(fn, ast.Name) and fn.id in self._QUIET_CALLS:
                        continue
                    if isinstance(fn, ast.Attribute) and isinstance(fn.value, ast.Name) and fn.value.id in ("log", "logger", "logging"):
                        continue
                    if isinstance(fn, ast.Attribute) and ast.unparse(fn.value) == container_txt and fn.attr in ("get", "keys", "values", "items", "setdefault", "copy"):
                        continue
                    return False
                if isinstance(x, ast.Name) and isinstance(x.ctx, ast.Store) and x.id in (key_txt, container_txt):
                    return False
        return True

    @staticmethod
    def _files_key(st: ast.stmt, ctxt: str, ktxt: str) -> bool:
        """`D[key] = v` or `D.setdefault(key, v)` as a statement of its own"""
        if isinstance(st, (ast.Assign, ast.AnnAssign)):
            tg = st.targets if isinstance(st, ast.Assign) else [st.target]
            if any(isinstance(t, ast.Subscript) and ast.unparse(t.value) == ctxt and ast.unparse(t.slice) == ktxt for t in tg):
                return True
            st_v = getattr(st, "value", None)
        elif isinstance(st, ast.Expr):
            st_v = st.value
        else:
            return False
        return isinstance(st_v, ast.Call) and isinstance(st_v.func, ast.Attribute) and st_v.func.attr == "setdefault" and ast.unparse(st_v.func.value) == ctxt \
            and bool(st_v.args) and ast.unparse(st_v.args[0]) == ktxt

    @staticmethod
    def _terminates(body: List[ast.stmt]) -> bool:
        return bool(body) and isinstance(body[-1], (ast.Return, ast.Raise, ast.Continue, ast.Break))

    def _membership(self, test: ast.AST, container_txt: str, key_txt: str) -> Optional[bool]:
        """True if the test asserts `key in container`, False if it asserts `key not in container`, else None."""
        if isinstance(test, ast.UnaryOp) and isinstance(test.op, ast.Not):
            v = self._membership(test.operand, container_txt, key_txt)
            return None if v is None else not v
        if isinstance(test, ast.Compare) and len(test.ops) == 1 and ast.unparse(test.left) == key_txt:
            c = test.comparators[0]
            ctxt = ast.unparse(c)
            if isinstance(c, ast.Call) and isinstance(c.func, ast.Attribute) and c.func.attr == "keys" and not c.args:
                ctxt = ast.unparse(c.func.value)
            if ctxt == container_txt:
                if isinstance(test.ops[0], ast.In):
                    return True
                if isinstance(test.ops[0], ast.NotIn):
                    return False
        return None

    def _guarded_member(self, at: ast.AST, container: ast.AST, key: ast.AST) -> bool:
        """The step `at` runs only where `key in container` was tested (and nothing since could have changed it)."""
        pm = self._parents()
        ctxt, ktxt = ast.unparse(container), ast.unparse(key)
        cur = at
        while id(cur) in pm:
            parent, fld, idx = pm[id(cur)]
            if isinstance(parent, (ast.FunctionDef, ast.AsyncFunctionDef, ast.Lambda, ast.ClassDef)) and fld != "body":
                return False
            if idx >= 0 and isinstance(getattr(parent, fld), list) and fld in ("body", "orelse", "finalbody"):
                sibs = getattr(parent, fld)
                before = sibs[:idx]
                # an earlier `if key not in D: <leave>` in the same block, or an earlier step that files the key
                for j in range(len(before) - 1, -1, -1):
                    st = before[j]
                    if isinstance(st, ast.If) and not st.orelse and self._terminates(st.body) and self._membership(st.test, ctxt, ktxt) is False:
                        if self._quiet(before[j + 1:], ctxt, ktxt):
                            return True
                    files = self._files_key(st, ctxt, ktxt)
                    if not files and isinstance(st, ast.If) and not st.orelse and self._membership(st.test, ctxt, ktxt) is False and st.body \
                            and any(self._files_key(x, ctxt, ktxt) for x in st.body) and not self._terminates(st.body):
                        files = True  # `if key not in D: D[key] = ...`: present afterwards either way
                    if files and self._quiet(before[j + 1:], ctxt, ktxt):
                        return True
                if isinstance(parent, ast.If) and fld in ("body", "orelse"):
                    m = self._membership(parent.test, ctxt, ktxt)
                    if m is not None and m == (fld == "body") and self._quiet(before, ctxt, ktxt):
                        return True
                if not self._quiet(before, ctxt, ktxt):
                    return False
            if isinstance(parent, (ast.FunctionDef, ast.AsyncFunctionDef, ast.Lambda, ast.ClassDef)):
                return False
            if isinstance(parent, (ast.For, ast.AsyncFor, ast.While)):
                return False  # a previous iteration may have changed the container
            cur = parent
        return False

    def _key_known_present(self, container: ast.AST, key: ast.AST, _depth: int = 0, _visiting: Optional[Set[str]] = None, at: Optional[ast.AST] = None) -> bool:
        """`for k in D: ... D[k]` and `for k in L: del D[k]` where L only collects such k: the key is one of D's own."""
        if at is not None and _depth == 0 and self._guarded_member(at, container, key):
            return True
        if not isinstance(key, ast.Name) or _depth > 3:
            return False
        _visiting = _visiting or set()
        ctxt = ast.unparse(container)
        for how in self.sc.defs.get(key.id, []):
            items_key = False
            if how[0] == "elt" and how[2] == 0 and how[1][0] == "iter":
                # for key, value in D.items()
                how = how[1]
                items_key = True
            if how[0] != "iter":
                return False
            it = how[1]
            base = it
            if items_key:
                while isinstance(base, ast.Call) and isinstance(base.func, ast.Name) and base.func.id in ("list", "tuple", "sorted", "iter") and len(base.args) == 1:
                    base = base.args[0]
                if not (isinstance(base, ast.Call) and isinstance(base.func, ast.Attribute) and base.func.attr == "items" and not base.args):
                    return False
                base = base.func.value
            while isinstance(base, ast.Call) and isinstance(base.func, ast.Name) and base.func.id in ("list", "tuple", "sorted", "set", "iter") and len(base.args) == 1:
                base = base.args[0]
            if isinstance(base, ast.Call) and isinstance(base.func, ast.Attribute) and base.func.attr == "keys" and not base.args:
                base = base.func.value
            if ast.unparse(base) == ctxt:
                continue
            if isinstance(base, ast.Name) and base.id in _visiting:
                continue
            if isinstance(base, ast.Name) and base.id in self.sc.params and not self.sc.defs.get(base.id) and self.env and base.id in self.env and _depth < 3:
                # the keys were handed to this (spliced) helper: judged where the collection was built
                caller, arg, cenv = self.env[base.id]
                recv_ok = True
                if self.sc.selfname is not None and ctxt.startswith(self.sc.selfname + "."):
                    sarg = self.env.get(self.sc.selfname)
                    recv_ok = sarg is not None and isinstance(sarg[1], ast.Name) and sarg[1].id == self.an.scope(caller).selfname
                if isinstance(arg, ast.Name) and recv_ok:
                    frame = self._frame()
                    self.f, self.sc, self.env = caller, self.an.scope(caller), cenv
                    try:
                        cont2 = container
                        if self.sc.selfname is not None and frame[1].selfname is not None and self.sc.selfname != frame[1].selfname:
                            cont2 = ast.parse(ctxt.replace(frame[1].selfname + ".", self.sc.selfname + ".", 1), mode="eval").body
                        fake = ast.For(target=ast.Name(id="__k", ctx=ast.Store()), iter=arg, body=[], orelse=[])
                        ok2 = self._keys_of(cont2, arg, _depth + 1, _visiting)
                    finally:
                        self._restore(frame)
                    if ok2:
                        continue
            if isinstance(base, ast.Name) and base.id in self.sc.defs and base.id not in self.sc.params:
                # a local list fed only by append(<key of the same container>)
                _visiting = _visiting | {base.id}
                ok = True
                found = False
                for node in self.sc._own_nodes():
                    if isinstance(node, ast.Call) and isinstance(node.func, ast.Attribute) and isinstance(node.func.value, ast.Name) and node.func.value.id == base.id:
                        if node.func.attr == "append" and len(node.args) == 1 and self._key_known_present(container, node.args[0], _depth + 1, _visiting):
                            found = True
                        elif node.func.attr in ("append", "extend", "insert", "add", "update"):
                            ok = False
                for h2 in self.sc.defs[base.id]:
                    v = h2[1] if h2[0] == "assign" else (h2[2] if h2[0] == "ann" else None)
                    if not (isinstance(v, (ast.List, ast.Set)) and not v.elts or (isinstance(v, ast.Call) and isinstance(v.func, ast.Name) and v.func.id in ("list", "set") and not v.args)):
                        ok = False
                if ok and found:
                    continue
            return False
        return bool(self.sc.defs.get(key.id))

    def _keys_of(self, container: ast.AST, coll: ast.Name, _depth: int, _visiting) -> bool:
        """the local collection `coll` of the current frame holds only keys of `container` (it is a fresh list / set fed only by
        append / add of such keys)"""
        if coll.id not in self.sc.defs or coll.id in self.sc.params:
            return False
        _visiting = (_visiting or set()) | {coll.id}
        ok, found = True, False
        for node in self.sc._own_nodes():
            if isinstance(node, ast.Call) and isinstance(node.func, ast.Attribute) and isinstance(node.func.value, ast.Name) and node.func.value.id == coll.id:
                if node.func.attr in ("append", "add") and len(node.args) == 1 and self._key_known_present(container, node.args[0], _depth + 1, _visiting):
                    found = True
                elif node.func.attr in ("append", "extend", "insert", "add", "update"):
                    ok = False
        for h2 in self.sc.defs[coll.id]:
            v = h2[1] if h2[0] == "assign" else (h2[2] if h2[0] == "ann" else None)
            if not (isinstance(v, (ast.List, ast.Set)) and not v.elts or (isinstance(v, ast.Call) and isinstance(v.func, ast.Name) and v.func.id in ("list", "set") and not v.args)):
                ok = False
        return ok and found

    # ------------------------------------------------------------- inlining
    def _frame(self):
        return (self.f, self.sc, self.env, self.inline_stack)

    def _restore(self, frame) -> None:
        self.f, self.sc, self.env, self.inline_stack = frame

    def _inline_target(self, cal: Optional[Callee], want_async: bool) -> Optional[FuncInfo]:
        known = self.an.known_funcs
        if known is None or cal is None or cal.kind != "pkg" or len(cal.targets) != 1:
            return None
        t = cal.targets[0]
        if t.qual in known or t.is_async != want_async or t.qual in self.inline_stack or t.qual == self.root_f.qual or len(self.inline_stack) >= 6:
            return None
        if t.kind in ("getter", "setter", "property"):
            return None
        for x in self.an.scope(t)._own_nodes():
            if isinstance(x, (ast.Yield, ast.YieldFrom)):
                return None  # generators run lazily
        return t

    def _bind(self, call: ast.Call, t: FuncInfo):
        syn = self.an.partial_syn.get((id(call), id(self.env)))
        if syn is not None:
            # a call through a callable value: bound as the stand-in call that spells out the arguments, each argument in the
            # frame that wrote it (the helper's surplus arguments belong to its caller)
            env = bind_args(syn, t, self.f, self.env)
            for pn, (fr_, arg, env_) in list(env.items()):
                tag = self.an.syn_arg_frame.get(id(arg))
                if tag is not None:
                    env[pn] = (tag[0], arg, tag[1])
            return env
        return bind_args(call, t, self.f, self.env)

    def _raise_spliced(self, st: ast.Raise, call: ast.Call, t: FuncInfo, ctx: Ctx) -> Node:
        """`raise helper(...)` with a helper outside the frozen table that builds the exception: the helper's body is spliced
        in and each of its `return <exc>` statements becomes the raise of that exception (so which class is raised stays
        a property of the path taken through the helper)."""
        caller_frame = self._frame()
        raise_ctx = ctx

        def ret_for(rst: ast.Return) -> Node:
            saved = self._frame()
            # the raise step belongs to the helper's frame: its expression is the helper's return value
            rn = self.mk("raise", ast.copy_location(ast.Raise(exc=rst.value, cause=st.cause), rst), rst)
            toks = [("x", (c, True)) for c in self.hier.resolve(self.f.module, rst.value)]
            self._restore(caller_frame)
            try:
                self.add_raises(rn, raise_ctx, toks)
            finally:
                self._restore(saved)
            return rn

        n = self.mk("call", call, st)
        n.callee = self.sc.callee(call)
        n.inlined = t
        env = self._bind(call, t)
        self.an.env_site[id(env)] = id(call)
        n.benv = env
        self.an.inlined_calls.append((self.root_f.qual, t.qual, id(call)))
        self.an.spliced_at[id(call)] = t
        # a helper that falls off its end returns None: `raise None` is a TypeError
        fall = self.mk("raise", st, st)
        self.add_raises(fall, ctx, [("x", ("builtins.TypeError", True))])
        self.f, self.sc, self.env, self.inline_stack = t, self.an.scope(t), env, self.inline_stack + [t.qual]
        try:
            top = Ctx((lambda: fall), None, None, ctx.raise_, None, ret_for)
            body = self.stmts(list(t.node.body), fall, top)
        finally:
            self._restore(caller_frame)
        self.edge(n, body)
        its: List[Item] = []
        for a in call.args:
            its += linearise(a)
        for kw in call.keywords:
            its += linearise(kw.value)
        return self.items(its, n, ctx, st, False)

    def _inline(self, n: Node, call: ast.Call, t: FuncInfo, k: Node, ctx: Ctx, stmt: ast.AST) -> Node:
        """Splice the body of helper t after step n: its returns continue at k, its exceptions are routed by the caller."""
        n.inlined = t
        n.suspends = False
        ret = self.mk("inl_ret", call, stmt)
        ret.inlined = t
        self.edge(ret, k)
        env = self._bind(call, t)
        self.an.env_site[id(env)] = id(call)
        n.benv = env
        frame = self._frame()
        self.an.inlined_calls.append((self.root_f.qual, t.qual, id(call)))
        self.an.spliced_at[id(call)] = t
        self.f, self.sc, self.env, self.inline_stack = t, self.an.scope(t), env, self.inline_stack + [t.qual]
        try:
            top = Ctx((lambda: ret), None, None, ctx.raise_, None)
            body = self.stmts(list(t.node.body), ret, top)
        finally:
            self._restore(frame)
        self.edge(n, body)
        return n

    # ---------------------------------------------------- loops over a literal display: unrolling
    @staticmethod
    def _pure(e: ast.AST) -> bool:
        if isinstance(e, (ast.Name, ast.Constant)):
            return True
        if isinstance(e, ast.Attribute):
            return Builder._pure(e.value)
        if isinstance(e, (ast.Tuple, ast.List)):
            return all(Builder._pure(x) for x in e.elts)
        return False

    def _loop_display(self, st: ast.For):
        """the literal display `for ... in <display>` runs over: written in place, or a tuple bound once to a local; short, its
        elements side-effect free, the loop variables never re-bound in the body"""
        it = st.iter
        if isinstance(it, ast.Name) and it.id not in self.sc.params:
            hows = self.sc.defs.get(it.id, [])
            if len(hows) == 1 and hows[0][0] in ("assign", "ann"):
                v = hows[0][1] if hows[0][0] == "assign" else hows[0][2]
                if isinstance(v, ast.Tuple):
                    it = v
        if not isinstance(it, (ast.Tuple, ast.List)) or not 1 <= len(it.elts) <= 4 or any(isinstance(x, ast.Starred) for x in it.elts):
            return None
        if not all(self._pure(x) for x in it.elts):
            return None
        tg = st.target
        names = [tg.id] if isinstance(tg, ast.Name) else ([x.id for x in tg.elts] if isinstance(tg, (ast.Tuple, ast.List)) and all(isinstance(x, ast.Name) for x in tg.elts) else None)
        if names is None:
            return None
        if isinstance(tg, (ast.Tuple, ast.List)) and not all(isinstance(x, (ast.Tuple, ast.List)) and len(x.elts) == len(names) for x in it.elts):
            return None
        for x in ast.walk(st):
            if x is tg:
                continue
            if isinstance(x, ast.Name) and x.id in names and not isinstance(x.ctx, ast.Load) and not any(x is y for y in ast.walk(tg)):
                return None  # re-bound in the body
            if isinstance(x, (ast.FunctionDef, ast.AsyncFunctionDef, ast.Lambda, ast.ClassDef)):
                return None
        # the variables must not be read after the loop either (they would hold the last element)
        for x in ast.walk(self.f.node):
            if isinstance(x, ast.Name) and x.id in names and not any(x is y for y in ast.walk(st)):
                return None
        return it

    def _subst_body(self, st: ast.For, elt: ast.AST) -> List[ast.stmt]:
        """the loop body with the loop variables replaced by (the components of) this element"""
        import copy

        tg = st.target
        mapping = {tg.id: elt} if isinstance(tg, ast.Name) else {t.id: e for t, e in zip(tg.elts, elt.elts)}

        class Sub(ast.NodeTransformer):
            def visit_Name(self, node: ast.Name):
                if isinstance(node.ctx, ast.Load) and node.id in mapping:
                    return ast.copy_location(copy.deepcopy(mapping[node.id]), node)
                return node

        out = []
        for b in st.body:
            nb = Sub().visit(copy.deepcopy(b))
            ast.fix_missing_locations(nb)
            out.append(nb)
        return out

    # ---------------------------------------------------- boolean helpers: branch threading
    def _flag_call(self, e: Optional[ast.AST]):
        """e is `[not] [await] helper(...)` with a helper that is spliced in -> (negated, await node or None, call, helper)"""
        if e is None:
            return None
        neg = False
        e = strip_cast(e)
        while isinstance(e, ast.UnaryOp) and isinstance(e.op, ast.Not):
            neg = not neg
            e = strip_cast(e.operand)
        aw = e if isinstance(e, ast.Await) else None
        inner = strip_cast(e.value) if aw is not None else e
        if isinstance(inner, ast.Call):
            t = self._inline_target(self.sc.callee(inner), aw is not None)
            if t is not None:
                return neg, aw, inner, t
        return None

    def _flag_cmp_call(self, e: Optional[ast.AST]):
        """e is `[not] ([await] helper(...)) is [not] <None | marker object>` with a helper that is spliced in
        -> (negated, await node or None, call, helper, decide) where decide(return value) says whether the comparison holds"""
        if e is None:
            return None
        neg = False
        e = strip_cast(e)
        while isinstance(e, ast.UnaryOp) and isinstance(e.op, ast.Not):
            neg = not neg
            e = strip_cast(e.operand)
        if not (isinstance(e, ast.Compare) and len(e.ops) == 1 and isinstance(e.ops[0], (ast.Is, ast.IsNot))):
            return None
        if isinstance(e.ops[0], ast.IsNot):
            neg = not neg
        rhs = e.comparators[0]
        is_none = isinstance(rhs, ast.Constant) and rhs.value is None
        if not is_none and not (isinstance(rhs, ast.Name) and self._is_marker(self.f, rhs.id)):
            return None
        fc = self._flag_call(e.left)
        if fc is None or fc[0]:
            return None
        _n, aw, call, t = fc
        op_is = ast.Is()

        def decide(v: Optional[ast.AST]):
            """True / False when the helper's return value settles `value is <rhs>`, else the comparison to test"""
            if v is None or (isinstance(v, ast.Constant) and v.value is None):
                return is_none
            if isinstance(v, ast.Constant):
                return False
            if isinstance(v, ast.Name) and self._is_marker(t, v.id):
                return (not is_none) and v.id == rhs.id
            if not is_none and not (isinstance(v, ast.Name) and v.id not in self.an.scope(t).params and not self.an.scope(t).defs.get(v.id)):
                # a computed value / a local of the helper: never the module's private marker object (only `return MARKER` yields it)
                if not isinstance(v, ast.Name) or all(h[0] in ("assign", "ann") and not (isinstance(h[1 if h[0] == "assign" else 2], ast.Name)) for h in self.an.scope(t).defs.get(v.id, [("x",)])):
                    return False
            return ast.copy_location(ast.Compare(left=v, ops=[op_is], comparators=[rhs]), v)

        return neg, aw, call, t, decide

    def _inline_threaded(self, aw: Optional[ast.Await], call: ast.Call, t: FuncInfo, k_true: Node, k_false: Node, ctx: Ctx, stmt: ast.AST, decide=None) -> Node:
        """Splice helper t where only the truth of its result matters: every `return v` of the helper continues at k_true /
        k_false according to v (a test step on v unless v is a constant), so the branch taken stays tied to the path through
        the helper.  Falling off the end returns None (false)."""
        r_true = self.mk("inl_ret", call, stmt)
        r_false = self.mk("inl_ret", call, stmt)
        r_true.inlined = r_false.inlined = t
        self.edge(r_true, k_true)
        self.edge(r_false, k_false)

        def route(rst: Optional[ast.Return]) -> Node:
            if decide is not None:
                d = decide(strip_cast(rst.value) if rst is not None and rst.value is not None else None)
                if d is True:
                    return r_true
                if d is False:
                    return r_false
                tn = self.mk("test", d, rst)
                self.edge(tn, r_true, T)
                self.edge(tn, r_false, F)
                return tn
            if rst is None or rst.value is None:
                return r_false
            v = strip_cast(rst.value)
            while isinstance(v, ast.Call) and isinstance(v.func, ast.Name) and v.func.id == "bool" and len(v.args) == 1 and not v.keywords:
                v = strip_cast(v.args[0])
            c = self._const_truth(v)
            if c is True:
                return r_true
            if c is False:
                return r_false
            tn = self.mk("test", v, rst)
            self.edge(tn, r_true, T)
            self.edge(tn, r_false, F)
            return tn

        return self._inline_routed(aw, call, t, route, ctx, stmt)

    def _inline_routed(self, aw: Optional[ast.Await], call: ast.Call, t: FuncInfo, route: Callable[[Optional[ast.Return]], Node], ctx: Ctx, stmt: ast.AST,
                       lazy_fall: bool = False) -> Node:
        """Splice helper t; route(return statement | None for falling off the end) names the continuation of each way out."""
        n = self.mk("await" if aw is not None else "call", aw if aw is not None else call, stmt)
        if aw is not None:
            n.awaited = self.sc.callee(call)
        else:
            n.callee = self.sc.callee(call)
        n.inlined = t
        n.suspends = False
        env = self._bind(call, t)
        self.an.env_site[id(env)] = id(call)
        n.benv = env
        frame = self._frame()
        self.an.inlined_calls.append((self.root_f.qual, t.qual, id(call)))
        self.an.spliced_at[id(call)] = t
        self.an.threaded.add(id(call))
        fall = self.mk("unreachable", call, stmt) if lazy_fall else route(None)  # (lazy_fall: the helper's body never falls off its end)
        self.f, self.sc, self.env, self.inline_stack = t, self.an.scope(t), env, self.inline_stack + [t.qual]
        try:
            top = Ctx((lambda: fall), None, None, ctx.raise_, None, route)
            body = self.stmts(list(t.node.body), fall, top)
        finally:
            self._restore(frame)
        self.edge(n, body)
        its: List[Item] = []
        for a in call.args:
            its += linearise(a)
        for kw in call.keywords:
            its += linearise(kw.value)
        return self.items(its, n, ctx, stmt, False)

    @staticmethod
    def _bare_test(tst: ast.AST) -> ast.AST:
        while isinstance(tst, ast.UnaryOp) and isinstance(tst.op, ast.Not):
            tst = tst.operand
        if isinstance(tst, ast.Compare) and len(tst.ops) == 1 and isinstance(tst.ops[0], (ast.Is, ast.IsNot, ast.Eq, ast.NotEq)) \
                and isinstance(tst.comparators[0], ast.Constant) and tst.comparators[0].value is None:
            tst = tst.left
        elif isinstance(tst, ast.Compare) and len(tst.ops) == 1 and isinstance(tst.ops[0], (ast.Is, ast.IsNot)) and isinstance(tst.comparators[0], ast.Name) \
                and isinstance(tst.left, ast.Name):
            tst = tst.left  # `flag is _MARKER`
        return tst

    def _flag_used(self, name: str, body: List[ast.stmt], calls: bool) -> bool:
        """a later statement tests the local (truth / `is None`) or - calls=True - calls it"""
        for st in body:
            for x in ast.walk(st):
                if isinstance(x, (ast.If, ast.While, ast.IfExp, ast.Assert)):
                    tst = self._bare_test(x.test)
                    if isinstance(tst, ast.Name) and tst.id == name:
                        return True
                if calls and isinstance(x, ast.Call) and isinstance(x.func, ast.Name) and x.func.id == name:
                    return True
        return False

    def _return_values(self, t: FuncInfo):
        """[(return statement, key, value expr)] when every return of helper t yields a constant or a reference to a method of
        its own instance (`self.m`), else None; falling off the end counts as `None`"""
        sc = self.an.scope(t)
        out = []
        for x in sc._own_nodes():
            if not isinstance(x, ast.Return):
                continue
            v = strip_cast(x.value) if x.value is not None else None
            if v is None or (isinstance(v, ast.Constant) and (v.value is None or isinstance(v.value, (bool, int, str)))):
                out.append((x, "const:" + repr(None if v is None else v.value), v if v is not None else ast.Constant(value=None)))
            elif isinstance(v, ast.Attribute) and isinstance(v.value, ast.Name) and v.value.id == sc.selfname and t.cls is not None \
                    and self.an.prog.lookup(t.cls, v.attr) is not None:
                out.append((x, "method:" + v.attr, v))
            elif isinstance(v, ast.Name) and self._is_marker(t, v.id):
                out.append((x, "marker:" + v.id, v))
            elif self._never_none(t, v):
                out.append((x, "other-nn:%d:%d" % (x.lineno, x.col_offset), v))
            else:
                out.append((x, "other:%d:%d" % (x.lineno, x.col_offset), v))
        if not any(k_.startswith("marker:") for _x, k_, _v in out) and any(k_.startswith("other:") for _x, k_, _v in out):
            return None  # (a computed value is told apart only from a marker object - or, when it cannot be None, from None)
        if any(k_.startswith("other-nn:") for _x, k_, _v in out) and not any(k_ in ("const:None",) or k_.startswith("marker:") for _x, k_, _v in out):
            return None
        return out

    def _never_none(self, t: FuncInfo, v: ast.AST) -> bool:
        """the value of this return expression of helper t is certainly not None: a display, a constructor call, or a call of a
        package function whose declared return type does not admit None"""
        if isinstance(v, (ast.Tuple, ast.List, ast.Dict, ast.Set, ast.JoinedStr, ast.ListComp, ast.SetComp, ast.DictComp)):
            return True
        if isinstance(v, ast.Await):
            v = v.value
        if not isinstance(v, ast.Call):
            return False
        cal = self.an.scope(t).callee(v)
        if cal.kind == "ctor":
            return True
        if cal.kind != "pkg" or not cal.targets:
            return False
        for tg in cal.targets:
            ann = tg.node.returns
            if ann is None:
                return False
            txt = ast.unparse(ann)
            if isinstance(ann, ast.Constant) and isinstance(ann.value, str):
                txt = ann.value
            if "None" in txt or "Optional" in txt or "Any" in txt or txt in ("object",):
                return False
        return True

    def _is_marker(self, t: FuncInfo, name: str) -> bool:
        """a module-level name bound exactly once, to a fresh `object()`: equal (identical) to nothing but itself"""
        sc = self.an.scope(t)
        if name in sc.params or name in sc.defs:
            return False
        m = t.module
        v = m.assigns.get(name)
        if not (isinstance(v, ast.Call) and isinstance(v.func, ast.Name) and v.func.id == "object" and not v.args and not v.keywords):
            return False
        n = 0
        for st in ast.walk(m.tree):
            if isinstance(st, ast.Name) and st.id == name and not isinstance(st.ctx, ast.Load):
                n += 1
            elif isinstance(st, (ast.Global, ast.Nonlocal)) and name in st.names:
                return False
        return n == 1

    def _pair_assign(self, st: ast.stmt, rest: List[ast.stmt]):
        """`a, ok = [await] helper(...)` (helper spliced in; every return of it a pair display of that length, at least one component a
        literal in all of them; the names bound once) and a later statement of the block tests such a literal component
        -> (names, (negated, await, call, helper), return statements)"""
        if not (isinstance(st, ast.Assign) and len(st.targets) == 1 and isinstance(st.targets[0], ast.Tuple) and st.targets[0].elts
                and all(isinstance(x, ast.Name) for x in st.targets[0].elts)):
            return None
        names = [x.id for x in st.targets[0].elts]
        fc = self._flag_call(st.value)
        if fc is None or fc[0]:
            return None
        if any(len(self.sc.defs.get(nm, [])) != 1 or nm in self.sc.params for nm in names) or len(set(names)) != len(names):
            return None
        t = fc[3]
        rets = [x for x in self.an.scope(t)._own_nodes() if isinstance(x, ast.Return)]
        if not rets or len(rets) > 4 or any(not (isinstance(r.value, ast.Tuple) and len(r.value.elts) == len(names)
                                                  and not any(isinstance(e_, ast.Starred) for e_ in r.value.elts)) for r in rets):
            return None
        if not _always_leaves(list(t.node.body)):
            return None  # (falling off the end would hand back None, which cannot be unpacked)
        flags = [nm for j, nm in enumerate(names) if all(isinstance(r.value.elts[j], ast.Constant) and (r.value.elts[j].value is None or isinstance(r.value.elts[j].value, bool))
                                                       for r in rets)]
        if not flags or not any(self._flag_used(nm, rest, False) for nm in flags):
            return None
        for x in ast.walk(self.f.node):
            if isinstance(x, (ast.Nonlocal, ast.Global)) and set(names) & set(x.names):
                return None
        return names, fc, rets

    def _flag_assign(self, st: ast.stmt, rest: List[ast.stmt]):
        """`flag = [await] helper(...)` (helper spliced in, flag bound once in this function) which a later statement of the
        same block tests (or calls) -> (flag name, (negated, await, call, helper), return values | None)"""
        if isinstance(st, ast.Assign) and len(st.targets) == 1 and isinstance(st.targets[0], ast.Name):
            name, val = st.targets[0].id, st.value
        elif isinstance(st, ast.AnnAssign) and isinstance(st.target, ast.Name) and st.value is not None:
            name, val = st.target.id, st.value
        else:
            return None
        fc = self._flag_call(val)
        if fc is None or fc[0]:
            return None
        hows = self.sc.defs.get(name, [])
        if len(hows) != 1 or name in self.sc.params:
            return None
        rv = self._return_values(fc[3])
        if rv is not None and len({k_ for _r, k_, _v in rv} | {"const:None"}) > 4:
            rv = None
        if rv is not None and any(k_.startswith("method:") for _r, k_, _v in rv):
            recv_self = isinstance(fc[2].func, ast.Attribute) and isinstance(fc[2].func.value, ast.Name) and fc[2].func.value.id == self.sc.selfname
            if not recv_self:
                rv = None
        if not self._flag_used(name, rest, rv is not None):
            return None
        for x in ast.walk(self.f.node):
            if isinstance(x, (ast.Nonlocal, ast.Global)) and name in x.names:
                return None
            if isinstance(x, ast.AugAssign) and isinstance(x.target, ast.Name) and x.target.id == name:
                return None
        return name, fc, rv

    def _assumed(self, test: ast.AST) -> Optional[bool]:
        neg = False
        while isinstance(test, ast.UnaryOp) and isinstance(test.op, ast.Not):
            neg = not neg
            test = test.operand
        res: Optional[bool] = None
        if isinstance(test, ast.Name) and (self.f.qual, test.id) in self.assume:
            kind, v = self.assume[(self.f.qual, test.id)]
            if kind == "truth":
                res = v
            elif isinstance(v, ast.Constant):
                res = bool(v.value)
            elif kind == "value" and (isinstance(v, ast.Attribute) or isinstance(v, ast.Name)):
                res = True  # a bound method / a plain object() marker
        elif isinstance(test, ast.Compare) and len(test.ops) == 1 and isinstance(test.ops[0], (ast.Is, ast.IsNot)) and isinstance(test.left, ast.Name) \
                and isinstance(test.comparators[0], ast.Name) and (self.f.qual, test.left.id) in self.assume and self._is_marker(self.f, test.comparators[0].id):
            kind, v = self.assume[(self.f.qual, test.left.id)]
            if kind in ("value", "other", "other-nn"):
                # the marker is identical to itself and to nothing else a helper of the package returns
                same = isinstance(v, ast.Name) and v.id == test.comparators[0].id
                res = same if isinstance(test.ops[0], ast.Is) else not same
        elif isinstance(test, ast.Compare) and len(test.ops) == 1 and isinstance(test.comparators[0], ast.Constant) and test.comparators[0].value is None \
                and isinstance(test.left, ast.Name) and (self.f.qual, test.left.id) in self.assume and isinstance(test.ops[0], (ast.Is, ast.IsNot, ast.Eq, ast.NotEq)):
            kind, v = self.assume[(self.f.qual, test.left.id)]
            is_none: Optional[bool] = None
            if kind == "truth":
                is_none = False if v else None
            elif kind == "other-nn":
                is_none = False
            elif kind == "other":
                is_none = None
            else:
                is_none = isinstance(v, ast.Constant) and v.value is None
            if is_none is not None:
                res = is_none if isinstance(test.ops[0], (ast.Is, ast.Eq)) else not is_none
        if res is None:
            return None
        return (not res) if neg else res

    def _partial_callee(self, call: ast.Call) -> Optional[Callee]:
        """`f()` where f is (a parameter of a spliced helper bound to) a local bound once to `functools.partial(F, ...)`:
        the callee is F (the call runs F with the frozen arguments)"""
        e: ast.AST = call.func
        f, sc, env = self.f, self.sc, self.env
        first = True
        hopped = False
        for _ in range(8):
            if not first and isinstance(e, ast.Attribute) and isinstance(e.value, ast.Name) and e.value.id == sc.selfname \
                    and f.cls is not None and self.an.prog.lookup(f.cls, e.attr) is not None:
                # a helper was handed `self.<method>` and calls it: that method, with the helper's surplus arguments spelled out
                key = (id(call), id(self.env))
                syn = self.an.partial_syn.get(key)
                if syn is None:
                    args2, kws2 = self._expand_surplus(call)
                    if args2 is None:
                        return None
                    syn = ast.copy_location(ast.Call(func=e, args=args2, keywords=kws2), call)
                    self.an.partial_syn[key] = syn
                    self.an.partial_frame[key] = (f, env)
                    self.an.syn_by_call.setdefault(id(call), []).append(syn)
                    self.an.syn_callee[id(syn)] = sc.callee(syn)
                return sc.callee(syn)
            first = False
            if isinstance(e, ast.Call) and sc.callee(e).name.rpartition(".")[2] == "partial" and e.args:
                key = (id(call), id(self.env))  # one stand-in per call site and frame instance
                syn = self.an.partial_syn.get(key)
                if syn is None:
                    syn = ast.copy_location(ast.Call(func=e.args[0], args=list(e.args[1:]) + list(call.args), keywords=list(e.keywords) + list(call.keywords)), call)
                    self.an.partial_syn[key] = syn
                    self.an.partial_frame[key] = (f, env)
                    self.an.syn_by_call.setdefault(id(call), []).append(syn)
                    self.an.syn_callee[id(syn)] = sc.callee(syn)
                    if f is not self.f or env is not self.env:
                        for x_ in list(e.args[1:]) + [k_.value for k_ in e.keywords]:
                            self.an.syn_arg_frame[id(x_)] = (f, env)  # the frozen arguments were written where the partial was built
                return sc.callee(syn)
            if isinstance(e, ast.Lambda) and not first_lambda_ok(e, call):
                return None
            if isinstance(e, ast.Lambda):
                # `factory()` with factory = `lambda: self._spawner(...)` (written by the caller of this helper, or bound once to a
                # local): the call runs the lambda's body, in the frame the lambda was written in
                body = strip_cast(e.body)
                if isinstance(body, ast.Await) or not isinstance(body, ast.Call):
                    return None
                key = (id(call), id(self.env))
                if key not in self.an.partial_syn:
                    self.an.partial_syn[key] = body
                    self.an.partial_frame[key] = (f, env)
                    self.an.syn_by_call.setdefault(id(call), []).append(body)
                    self.an.syn_callee[id(body)] = sc.callee(body)
                    if f is not self.f or env is not self.env:
                        for x_ in list(body.args) + [k_.value for k_ in body.keywords]:
                            self.an.syn_arg_frame[id(x_)] = (f, env)
                return sc.callee(body)
            if not isinstance(e, ast.Name):
                return None
            if e.id in sc.params and not sc.defs.get(e.id):
                if not env or e.id not in env:
                    return None
                f, e, env = env[e.id]
                sc = self.an.scope(f)
                e = strip_cast(e)
                hopped = True
                continue
            hows = sc.defs.get(e.id, [])
            if hopped and (not hows and e.id not in sc.params or len(hows) == 1 and hows[0][0] == "def"):
                # a helper was handed a function of the package by name (module level, imported, or a closure defined in the caller)
                # and calls it: that function, with the helper's surplus arguments spelled out
                probe = sc.callee(ast.copy_location(ast.Call(func=e, args=[], keywords=[]), e))
                if probe.kind == "pkg" and probe.targets:
                    key = (id(call), id(self.env))
                    syn = self.an.partial_syn.get(key)
                    if syn is None:
                        args2, kws2 = self._expand_surplus(call)
                        if args2 is None:
                            return None
                        syn = ast.copy_location(ast.Call(func=e, args=args2, keywords=kws2), call)
                        self.an.partial_syn[key] = syn
                        self.an.partial_frame[key] = (f, env)
                        self.an.syn_by_call.setdefault(id(call), []).append(syn)
                        self.an.syn_callee[id(syn)] = sc.callee(syn)
                    return sc.callee(syn)
                return None
            if len(hows) != 1 or hows[0][0] not in ("assign", "ann"):
                return None
            e = strip_cast(hows[0][1] if hows[0][0] == "assign" else hows[0][2])
            if isinstance(e, ast.Call) and sc.callee(e).name.rpartition(".")[2] == "partial" and e.args:
                key = (id(call), id(self.env))  # one stand-in per call site and frame instance
                syn = self.an.partial_syn.get(key)
                if syn is None:
                    syn = ast.copy_location(ast.Call(func=e.args[0], args=list(e.args[1:]) + list(call.args), keywords=list(e.keywords) + list(call.keywords)), call)
                    self.an.partial_syn[key] = syn
                    self.an.partial_frame[key] = (f, env)
                    self.an.syn_by_call.setdefault(id(call), []).append(syn)
                    self.an.syn_callee[id(syn)] = sc.callee(syn)
                    if f is not self.f or env is not self.env:
                        for x_ in list(e.args[1:]) + [k_.value for k_ in e.keywords]:
                            self.an.syn_arg_frame[id(x_)] = (f, env)
                return sc.callee(syn)
        return None

    def _expand_surplus(self, call: ast.Call):
        """arguments of `f(*args, **kwargs)` inside a spliced helper with the helper's *args / **kwargs replaced by what the caller
        passed -> (args, keywords); (None, None) when they are not known"""
        args2: List[ast.expr] = []
        for a_ in call.args:
            if isinstance(a_, ast.Starred) and isinstance(a_.value, ast.Name) and self.env and a_.value.id in self.env \
                    and isinstance(self.env[a_.value.id][1], ast.Tuple) and self.f.node.args.vararg is not None and self.f.node.args.vararg.arg == a_.value.id:
                args2 += list(self.env[a_.value.id][1].elts)
                for x_ in self.env[a_.value.id][1].elts:
                    self.an.syn_arg_frame[id(x_)] = (self.env[a_.value.id][0], self.env[a_.value.id][2])
            elif isinstance(a_, ast.Starred):
                return None, None
            else:
                args2.append(a_)
        kws2: List[ast.keyword] = []
        for k_ in call.keywords:
            if k_.arg is None and isinstance(k_.value, ast.Name) and self.env and k_.value.id in self.env and isinstance(self.env[k_.value.id][1], ast.Dict) \
                    and self.f.node.args.kwarg is not None and self.f.node.args.kwarg.arg == k_.value.id:
                d_ = self.env[k_.value.id][1]
                kws2 += [ast.keyword(arg=kk.value, value=vv) for kk, vv in zip(d_.keys, d_.values)]
                for x_ in d_.values:
                    self.an.syn_arg_frame[id(x_)] = (self.env[k_.value.id][0], self.env[k_.value.id][2])
            elif k_.arg is None:
                return None, None
            else:
                kws2.append(k_)
        return args2, kws2

    def _assumed_callee(self, call: ast.Call) -> Optional[Callee]:
        """`x(...)` where the statements being built know x to be `self.m` (returned by a spliced helper): the callee is that method"""
        if isinstance(call.func, ast.Name) and (self.f.qual, call.func.id) in self.assume:
            kind, v = self.assume[(self.f.qual, call.func.id)]
            if kind == "value" and isinstance(v, ast.Call) and isinstance(v.func, ast.Name) and v.func.id == "getattr" and len(v.args) == 2 and not v.keywords \
                    and isinstance(v.args[1], ast.Constant) and isinstance(v.args[1].value, str) and v.args[1].value.isidentifier() and isinstance(v.args[0], ast.Name):
                # `getattr(self, "m")` with a literal name is `self.m`
                v = ast.copy_location(ast.Attribute(value=v.args[0], attr=v.args[1].value, ctx=ast.Load()), v)
            if kind == "value" and isinstance(v, ast.Attribute) and self.sc.selfname is not None:
                syn = ast.Call(func=ast.Attribute(value=ast.Name(id=self.sc.selfname, ctx=ast.Load()), attr=v.attr, ctx=ast.Load()), args=call.args, keywords=call.keywords)
                ast.copy_location(syn, call)
                ast.fix_missing_locations(syn)
                return self.sc.callee(syn)
        return None

    # ------------------------------------------------------------ expressions
    def expr(self, e: Optional[ast.AST], k: Node, ctx: Ctx, stmt: ast.AST) -> Node:
        return self.items(linearise(e), k, ctx, stmt, False)

    def items(self, items: List[Item], k: Node, ctx: Ctx, stmt: ast.AST, in_comp: bool) -> Node:
        for it in reversed(items):
            if it.kind == "comp":
                head = self.mk("comp", it.node, stmt)
                head.cond = it.cond
                head.comp = in_comp
                self.loop_stack.append(it.node)
                body = self.items(it.inner, head, ctx, stmt, True)
                self.loop_stack.pop()
                self.edge(head, body, T)
                self.edge(head, k, F)
                if any(self._iter_is_user(g_.iter) for g_ in it.node.generators):
                    # drawing from an iterable the user handed in runs user code
                    head.user = True
                    self.add_raises(head, ctx, [("x", (EXCEPTION, False))])
                k = head
                continue
            e = it.node
            if isinstance(e, ast.Call):
                n = self.mk("call", e, stmt)
                n.callee = self._assumed_callee(e) or self._partial_callee(e) or self.sc.callee(e)
                t = self._inline_target(n.callee, False)
                if t is not None:
                    n.cond, n.comp = it.cond, in_comp
                    k = self._inline(n, e, t, k, ctx, stmt)
                    continue
                toks = self.call_raises(n, e, n.callee)
            elif isinstance(e, ast.Await):
                inner = self._awaited_expr(e)
                if id(e) in self.an.awaited_via:
                    # `c = f(...)` ... `await c`: the step is the await of that call (one stand-in expression per site)
                    e = self.an.await_syn.setdefault(id(e), ast.copy_location(ast.Await(value=inner), e))
                    self.an.awaited_via[id(e)] = inner
                n = self.mk("await", e, stmt)
                acal = (self._assumed_callee(inner) or self._partial_callee(inner) or self.sc.callee(inner)) if isinstance(inner, ast.Call) else None
                t = self._inline_target(acal, True) if acal is not None else None
                if t is not None:
                    n.awaited = acal
                    n.cond, n.comp = it.cond, in_comp
                    k = self._inline(n, inner, t, k, ctx, stmt)
                    continue
                toks = self.await_raises(n, e)
            elif isinstance(e, ast.Subscript):
                n = self.mk("subscript", e, stmt)
                toks = self.subscript_raises(n, e)
            elif isinstance(e, ast.BinOp):
                if not self._is_user_value(e.right):
                    continue  # (formatting a value of a known type with %: no step of its own)
                n = self.mk("format", e, stmt)
                n.user = False
                toks = [("x", ("builtins.TypeError", True))]
            else:
                n = self.mk("yield", e, stmt)
                n.suspends = True
                toks = [("x", (EXCEPTION, False)), ("c", (CANCELLED, True))]
            n.cond = it.cond
            n.comp = in_comp
            self.edge(n, k, N)
            self.add_raises(n, ctx, toks)
            k = n
        return k

    # -------------------------------------------------------------- statements
    def _note_flag_tests(self, body: List[ast.stmt]) -> None:
        """`c = <pure condition>` followed (only simple assignments / log calls in between) by `if c:` / `if not c:` in the same
        block, c bound once and used nowhere else: the branch is a branch on the condition"""
        for i, st in enumerate(body):
            if not isinstance(st, ast.If) or id(st) in self.test_subst:
                continue
            tst, neg = st.test, False
            while isinstance(tst, ast.UnaryOp) and isinstance(tst.op, ast.Not):
                tst, neg = tst.operand, not neg
            if not isinstance(tst, ast.Name) or tst.id in self.sc.params:
                continue
            hows = self.sc.defs.get(tst.id, [])
            if len(hows) != 1 or hows[0][0] not in ("assign", "ann"):
                continue
            val = hows[0][1] if hows[0][0] == "assign" else hows[0][2]
            if val is None or any(isinstance(x, (ast.Await, ast.Yield, ast.YieldFrom, ast.NamedExpr, ast.Lambda)) for x in ast.walk(val)):
                continue
            if not isinstance(val, (ast.Compare, ast.BoolOp, ast.UnaryOp, ast.Call, ast.Attribute, ast.Subscript)):
                continue
            # the binding is an earlier statement of this very block, with nothing but simple statements in between
            j = next((jj for jj in range(i - 1, -1, -1) if isinstance(body[jj], (ast.Assign, ast.AnnAssign)) and getattr(body[jj], "value", None) is val), None)
            if j is None:
                continue
            between_ok = all(isinstance(x, (ast.Assign, ast.AnnAssign)) and not any(isinstance(y, (ast.Call, ast.Await)) for y in ast.walk(x))
                             or (isinstance(x, ast.Expr) and isinstance(x.value, ast.Call) and isinstance(x.value.func, ast.Attribute)
                                 and isinstance(x.value.func.value, ast.Name) and x.value.func.value.id == "log") for x in body[j + 1:i])
            uses = [x for x in ast.walk(self.f.node) if isinstance(x, ast.Name) and x.id == tst.id and isinstance(x.ctx, ast.Load)]
            if not between_ok or len(uses) != 1:
                continue
            self.test_subst[id(st)] = ast.copy_location(ast.UnaryOp(op=ast.Not(), operand=val), st.test) if neg else val

    def stmts(self, body: List[ast.stmt], k: Node, ctx: Ctx) -> Node:
        if self.an.known_funcs is not None:
            self._note_flag_tests(body)
        if self.an.known_funcs is not None:
            for i, st in enumerate(body):
                pa = self._pair_assign(st, body[i + 1:])
                if pa is not None:
                    # `value, ok = helper()`: the rest of the block is built once per `return <pair>` of the helper, each copy knowing
                    # the literal components (the status flag) and where the computed ones come from
                    names, (_neg, aw, call, t), rets = pa
                    conts: Dict[int, Node] = {}

                    def route(rst: Optional[ast.Return], conts=conts, names=names, call=call, t=t, st=st, i=i) -> Node:
                        key_ = id(rst)
                        if key_ not in conts:
                            frame = self._frame()
                            self._restore(caller_frame)
                            saved, saved_at = dict(self.assume), dict(self.assume_at)
                            try:
                                if rst is not None:
                                    for nm, comp in zip(names, rst.value.elts):
                                        k2 = (self.f.qual, nm)
                                        if isinstance(comp, ast.Constant):
                                            self.assume[k2] = ("value", comp)
                                        else:
                                            self.assume[k2] = ("other", comp)
                                        self.assume_at[k2] = (frame[0], frame[2], comp)
                                rn = self.mk("inl_ret", call, st)
                                rn.inlined = t
                                rest_entry = self.stmts(body[i + 1:], k, ctx)
                                an_ = self.mk("assign", st, st)
                                self.edge(an_, rest_entry)
                                self.edge(rn, an_)
                            finally:
                                self.assume, self.assume_at = saved, saved_at
                                self._restore(frame)
                            conts[key_] = rn
                        return conts[key_]

                    caller_frame = self._frame()
                    k = self._inline_routed(aw, call, t, route, ctx, st, lazy_fall=True)
                    body = body[:i]
                    break
                fl = self._flag_assign(st, body[i + 1:])
                if fl is None:
                    continue
                # the rest of the block is built twice, once for each truth value of the flag
                name, (_neg, aw, call, t), rv = fl
                key = (self.f.qual, name)

                def cont(assumption, at=None) -> Node:
                    saved, saved_at = dict(self.assume), dict(self.assume_at)
                    self.assume[key] = assumption
                    if at is not None:
                        self.assume_at[key] = at
                    try:
                        rest_entry = self.stmts(body[i + 1:], k, ctx)
                    finally:
                        self.assume, self.assume_at = saved, saved_at
                    an_ = self.mk("assign", st, st)
                    self.edge(an_, rest_entry)
                    return an_

                if rv is None:
                    k = self._inline_threaded(aw, call, t, cont(("truth", True)), cont(("truth", False)), ctx, st)
                else:
                    # one copy of the rest per distinct value the helper can return
                    conts: Dict[str, Node] = {}
                    by_stmt = {id(r_): (k_, v_) for r_, k_, v_ in rv}

                    def route(rst: Optional[ast.Return], conts=conts, by_stmt=by_stmt, call=call, t=t, st=st) -> Node:
                        k_, v_ = by_stmt[id(rst)] if rst is not None and id(rst) in by_stmt else ("const:None", ast.Constant(value=None))
                        if k_ not in conts:
                            frame = self._frame()
                            self._restore(caller_frame)
                            try:
                                rn = self.mk("inl_ret", call, st)
                                rn.inlined = t
                                self.edge(rn, cont(("other-nn" if k_.startswith("other-nn:") else ("other" if k_.startswith("other:") else "value"), v_), (frame[0], frame[2], v_)))
                            finally:
                                self._restore(frame)
                            conts[k_] = rn
                        return conts[k_]

                    caller_frame = self._frame()
                    k = self._inline_routed(aw, call, t, route, ctx, st)
                body = body[:i]
                break
        for st in reversed(body):
            k = self.stmt(st, k, ctx)
        return k

    def _const_param(self, name: str) -> Optional[ast.Constant]:
        """the literal a parameter of the spliced helper being built is bound to at this call site (through further spliced frames)"""
        f, sc, env = self.f, self.sc, self.env
        for _ in range(8):
            if not env or name not in env or name not in sc.params or sc.defs.get(name):
                return None
            f, arg, env = env[name]
            if isinstance(arg, ast.Constant) and (arg.value is None or isinstance(arg.value, bool)):
                return arg
            if not isinstance(arg, ast.Name):
                return None
            name, sc = arg.id, self.an.scope(f)
        return None

    def _spec_test(self, e: ast.AST) -> ast.AST:
        """the test of an `if` in a spliced helper with the flag parameters this call site passes as literals filled in:
        `must and x in t` reads `x in t` where the caller says must=True and is never true where it says must=False"""
        if isinstance(e, ast.Name):
            return self._const_param(e.id) or e
        if isinstance(e, ast.UnaryOp) and isinstance(e.op, ast.Not):
            v = self._spec_test(e.operand)
            if isinstance(v, ast.Constant):
                return ast.copy_location(ast.Constant(value=not v.value), e)
            return e if v is e.operand else ast.copy_location(ast.UnaryOp(op=ast.Not(), operand=v), e)
        if isinstance(e, ast.Compare) and len(e.ops) == 1 and isinstance(e.ops[0], (ast.Is, ast.IsNot)) and isinstance(e.left, ast.Name) \
                and isinstance(e.comparators[0], ast.Constant) and e.comparators[0].value is None:
            v = self._const_param(e.left.id)
            if v is not None:
                return ast.copy_location(ast.Constant(value=(v.value is None) == isinstance(e.ops[0], ast.Is)), e)
            return e
        if isinstance(e, ast.BoolOp):
            absorbing = isinstance(e.op, ast.Or)  # the truth value that decides the whole
            vals = [self._spec_test(v) for v in e.values]
            if all(a is b for a, b in zip(vals, e.values)):
                return e
            out: List[ast.AST] = []
            for v in vals:
                if isinstance(v, ast.Constant) and (v.value is None or isinstance(v.value, bool)):
                    if bool(v.value) == absorbing:
                        if not out:
                            return ast.copy_location(ast.Constant(value=absorbing), e)
                        return e  # operands before it are still evaluated: left as written
                    continue  # neutral operand
                out.append(v)
            if not out:
                return ast.copy_location(ast.Constant(value=not absorbing), e)
            return out[0] if len(out) == 1 else ast.copy_location(ast.BoolOp(op=e.op, values=out), e)
        return e

    def _const_truth(self, e: ast.AST) -> Optional[bool]:
        if isinstance(e, ast.Constant):
            return bool(e.value)
        if isinstance(e, ast.Name) and e.id == "TYPE_CHECKING":
            return False
        return None

    def _is_user_value(self, e: ast.AST, _depth: int = 0) -> bool:
        """A value the user handed in, of which the package knows nothing (typed Any / object, or an un-annotated parameter):
        iterating it or calling a method on it runs user code and may raise (TypeError / AttributeError at the least)."""
        e = strip_cast(e)
        if isinstance(e, ast.Name) and e.id in self.sc.params and not self.sc.defs.get(e.id):
            p = self.sc.params[e.id]
            a = self.f.node.args
            if p is a.vararg or p is a.kwarg or e.id == self.sc.selfname:
                return False
            if self.env is not None and e.id in self.env and _depth < 6:
                caller, arg, cenv = self.env[e.id]
                frame = self._frame()
                self.f, self.sc, self.env = caller, self.an.scope(caller), cenv
                try:
                    return self._is_user_value(arg, _depth + 1)
                finally:
                    self._restore(frame)
            if p.annotation is None:
                return True
        try:
            t = self.sc.ty(e)
        except Exception:
            t = None
        return t is not None and t.head in ("Any", "object", "UserValue")

    def _iter_is_user(self, it: ast.AST) -> bool:
        e = it
        while isinstance(e, ast.Call) and isinstance(e.func, ast.Name) and e.func.id in ("enumerate", "iter", "reversed", "zip") and e.args:
            e = e.args[0]
        if self._is_user_value(e):
            return True
        if isinstance(e, ast.Name) and e.id in self.sc.params:
            p = self.sc.params[e.id]
            a = self.f.node.args
            if p is a.vararg or p is a.kwarg:
                return False
            if self.env is not None and e.id in self.env and not self.sc.defs.get(e.id):
                # parameter of a spliced helper: what the caller passes decides
                caller, arg, cenv = self.env[e.id]
                frame = self._frame()
                self.f, self.sc, self.env = caller, self.an.scope(caller), cenv
                try:
                    return self._iter_is_user(arg)
                finally:
                    self._restore(frame)
            t = self.sc.ann_ty(p.annotation)
            if t is None or t.head in ("Iterable", "Any", "object", "AsyncIterable", "typing.AsyncIterable"):
                return True
        return False

    def stmt(self, st: ast.stmt, k: Node, ctx: Ctx) -> Node:
        if isinstance(st, ast.Expr):
            if isinstance(st.value, ast.Constant):
                return k  # docstring / ellipsis
            entry = self.expr(st.value, k, ctx, st)
            if entry is k:
                n = self.mk("stmt", st, st)
                self.edge(n, k)
                return n
            return entry
        if isinstance(st, (ast.Assign, ast.AnnAssign, ast.AugAssign)):
            n = self.mk("assign" if not isinstance(st, ast.AugAssign) else "aug", st, st)
            self.edge(n, k)
            targets = st.targets if isinstance(st, ast.Assign) else [st.target]
            ent = n
            for t in reversed(targets):
                if isinstance(t, (ast.Subscript, ast.Attribute)):
                    ent = self.expr(t.value, ent, ctx, st) if isinstance(t, ast.Attribute) else self.items(
                        linearise(t.value) + linearise(t.slice), ent, ctx, st, False)
            if isinstance(st, ast.AugAssign) and isinstance(st.target, ast.Subscript):
                pass
            if getattr(st, "value", None) is not None:
                ent = self.expr(st.value, ent, ctx, st)
            return ent
        if isinstance(st, ast.Return):
            n = self.mk("return" if not self.inline_stack else "ret_inl", st, st)  # only the root function's own returns are `return` steps
            if self.inline_stack and self.env is not None:
                # (the returns of a spliced helper that exist for this call site: an arm ruled out by a literal flag has none)
                self.an.live_returns.setdefault(self.an.env_site.get(id(self.env)), set()).add(id(st))
            self.edge(n, ctx.ret_for(st) if ctx.ret_for is not None and st.value is not None else ctx.ret())
            return self.expr(st.value, n, ctx, st)
        if isinstance(st, ast.Raise):
            if st.exc is not None and isinstance(strip_cast(st.exc), ast.Call):
                t = self._inline_target(self.sc.callee(strip_cast(st.exc)), False)
                if t is not None:
                    return self._raise_spliced(st, strip_cast(st.exc), t, ctx)
            n = self.mk("raise", st, st)
            toks: List[Tuple[str, ExcTok]] = []
            if st.exc is None:
                for c in (ctx.caught or [BASE]):
                    toks.append(("x", (c, False)))
            else:
                e = st.exc
                if isinstance(e, ast.Name) and e.id in self.sc.defs and any(h[0] == "exc" for h in self.sc.defs[e.id]):
                    for h in self.sc.defs[e.id]:
                        if h[0] == "exc":
                            for c in self.hier.resolve(self.f.module, h[1]):
                                toks.append(("x", (c, False)))
                else:
                    for c in self.hier.resolve(self.f.module, e):
                        toks.append(("x", (c, True)))
            self.add_raises(n, ctx, toks)
            ent = n
            if st.exc is not None:
                inner = st.exc
                # evaluate constructor arguments, but the constructor call itself is the raise step
                if isinstance(inner, ast.Call):
                    its: List[Item] = []
                    for a in inner.args:
                        its += linearise(a)
                    for kw in inner.keywords:
                        its += linearise(kw.value)
                    ent = self.items(its, n, ctx, st, False)
            return ent
        if isinstance(st, ast.Pass):
            return k
        if isinstance(st, (ast.Break,)):
            n = self.mk("break", st, st)
            if ctx.brk is None:
                raise AnalysisError(f"break outside loop in {self.f.qual}")
            self.edge(n, ctx.brk())
            return n
        if isinstance(st, ast.Continue):
            n = self.mk("continue", st, st)
            if ctx.cont is None:
                raise AnalysisError(f"continue outside loop in {self.f.qual}")
            self.edge(n, ctx.cont())
            return n
        if isinstance(st, ast.If):
            fc = self._flag_call(st.test)
            if fc is not None:
                neg, aw, call, t = fc
                b_then, b_else = self.stmts(st.body, k, ctx), self.stmts(st.orelse, k, ctx)
                return self._inline_threaded(aw, call, t, b_else if neg else b_then, b_then if neg else b_else, ctx, st)
            fcc = self._flag_cmp_call(st.test)
            if fcc is not None:
                # `if helper() is None:` / `if (await helper()) is MARKER:`: each return of the helper goes straight to its branch
                neg, aw, call, t, decide = fcc
                b_then, b_else = self.stmts(st.body, k, ctx), self.stmts(st.orelse, k, ctx)
                return self._inline_threaded(aw, call, t, b_else if neg else b_then, b_then if neg else b_else, ctx, st, decide)
            # `_c = <condition>` right before `if _c:`: the test step reads the condition itself
            test = self._spec_test(st.test) if self.env else st.test
            br = self.mk("test", self.test_subst.get(id(st), test), st)
            c = self._const_truth(test)
            if c is None:
                c = self._assumed(test)
            if c is not False:
                self.edge(br, self.stmts(st.body, k, ctx), T)
            if c is not True:
                self.edge(br, self.stmts(st.orelse, k, ctx), F)
            return self.expr(test, br, ctx, st)
        if isinstance(st, ast.While):
            head = self.mk("loophead", st, st)
            br = self.mk("test", st.test, st)
            c = self._const_truth(st.test)
            lctx = Ctx(ctx.ret, (lambda: k), (lambda: head), ctx.raise_, ctx.caught, ctx.ret_for)
            self.loop_stack.append(st)
            br.loops = tuple(self.loop_stack)
            if c is not False:
                self.edge(br, self.stmts(st.body, head, lctx), T)
            test_entry = self.expr(st.test, br, ctx, st)
            self.loop_stack.pop()
            if c is not True:
                self.edge(br, self.stmts(st.orelse, k, ctx), F)
            self.edge(head, test_entry)
            return head
        disp = self._loop_display(st) if isinstance(st, ast.For) and self.an.known_funcs is not None else None
        if disp is not None:
            # a loop over a short literal display runs its body once per element: unrolled (so what the body does is done, in
            # order, on every path - not "zero or more times"), each copy with the loop variables replaced by that element
            cur = self.stmts(st.orelse, k, ctx)
            self.loop_stack.append(st)
            try:
                for _i in reversed(range(len(disp.elts))):
                    lctx = Ctx(ctx.ret, (lambda: k), (lambda cur=cur: cur), ctx.raise_, ctx.caught, ctx.ret_for)
                    body_i = self.stmts(self._subst_body(st, disp.elts[_i]), cur, lctx)
                    head_i = self.mk("iter", st, st)
                    head_i.loops = tuple(self.loop_stack)
                    self.edge(head_i, body_i, T)
                    cur = head_i
            finally:
                self.loop_stack.pop()
            return self.expr(st.iter, cur, ctx, st)
        if isinstance(st, (ast.For, ast.AsyncFor)):
            head = self.mk("iter", st, st)
            head.user = self._iter_is_user(st.iter)
            head.suspends = isinstance(st, ast.AsyncFor)
            lctx = Ctx(ctx.ret, (lambda: k), (lambda: head), ctx.raise_, ctx.caught, ctx.ret_for)
            self.loop_stack.append(st)
            head.loops = tuple(self.loop_stack)
            body = self.stmts(st.body, head, lctx)
            self.loop_stack.pop()
            self.edge(head, body, T)
            self.edge(head, self.stmts(st.orelse, k, ctx), F)
            toks: List[Tuple[str, ExcTok]] = []
            if head.user:
                toks.append(("x", (EXCEPTION, False)))
            if head.suspends:
                toks.append(("c", (CANCELLED, True)))
            self.add_raises(head, ctx, toks)
            return self.expr(st.iter, head, ctx, st)
        if isinstance(st, ast.Try) or st.__class__.__name__ == "TryStar":
            return self.try_(st, k, ctx)
        if isinstance(st, (ast.With, ast.AsyncWith)):
            return self.with_(st, list(st.items), k, ctx)
        if isinstance(st, (ast.FunctionDef, ast.AsyncFunctionDef, ast.ClassDef)):
            n = self.mk("def", st, st)
            self.edge(n, k)
            return n
        if isinstance(st, (ast.Import, ast.ImportFrom, ast.Global, ast.Nonlocal)):
            n = self.mk("stmt", st, st)
            self.edge(n, k)
            return n
        if isinstance(st, ast.Delete):
            n = self.mk("del", st, st)
            self.edge(n, k)
            toks = []
            for t in st.targets:
                if isinstance(t, ast.Subscript):
                    ty = self.sc.ty(t.value)
                    if ty is not None and ty.head == "dict" and not self._key_known_present(t.value, t.slice, at=st):
                        toks.append(("x", (KEYERROR, True)))
            self.add_raises(n, ctx, toks)
            its: List[Item] = []
            for t in st.targets:
                if isinstance(t, ast.Subscript):
                    its += linearise(t.value) + linearise(t.slice)
            return self.items(its, n, ctx, st, False)
        if isinstance(st, ast.Assert):
            n = self.mk("assert", st, st)
            self.edge(n, k)
            self.add_raises(n, ctx, [("x", ("builtins.AssertionError", True))])
            return self.expr(st.test, n, ctx, st)
        self.g.unsupported.append(f"{type(st).__name__} at line {getattr(st, 'lineno', '?')}")
        n = self.mk("unsupported", st, st)
        self.edge(n, k)
        return n

    # ----------------------------------------------------------- try/finally
    def _wrap_cleanup(self, build: Callable[[Node], Node], k: Node, ctx: Ctx, try_id) -> Tuple[Ctx, Node]:
        """Context in which every way out first runs a copy of the clean-up produced by build(next)."""
        cache: Dict[Tuple, Node] = {}
        own_loops = list(self.loop_stack)
        own_tags = list(self.tag_stack)
        own_frame = self._frame()

        def copy(tag: Tuple, k_after_fn: Callable[[], Node]) -> Node:
            if tag in cache:
                return cache[tag]
            k_after = k_after_fn()
            saved_loops, saved_tags, saved_frame = self.loop_stack, self.tag_stack, self._frame()
            self.loop_stack = list(own_loops)
            self.tag_stack = own_tags + [(try_id, tag)]
            self._restore(own_frame)
            entry = build(k_after)
            self.loop_stack, self.tag_stack = saved_loops, saved_tags
            self._restore(saved_frame)
            cache[tag] = entry
            return entry

        def reraise(tok: ExcTok, kind: str) -> Node:
            saved_frame = self._frame()
            self._restore(own_frame)
            n = self.mk("reraise")
            self._restore(saved_frame)
            n.tok, n.kind = tok, kind
            n.try_id = try_id
            for tgt in ctx.raise_(tok, kind):
                self.edge(n, tgt, (kind, tok))
            return n

        inner = Ctx(
            (lambda: copy(("return", None), ctx.ret)),
            (None if ctx.brk is None else (lambda: copy(("break", None), ctx.brk))),
            (None if ctx.cont is None else (lambda: copy(("continue", None), ctx.cont))),
            (lambda tok, kind: [copy((kind, tok), (lambda: reraise(tok, kind)))]),
            ctx.caught,
            (None if ctx.ret_for is None else (lambda rst: copy(("return", id(rst)), (lambda: ctx.ret_for(rst))))),
        )
        k_norm = copy(("n", None), (lambda: k))
        return inner, k_norm

    def try_(self, st: ast.Try, k: Node, ctx: Ctx) -> Node:
        self._try_counter += 1
        try_id = (self.f.qual, st.lineno, self._try_counter)
        if st.finalbody:
            inner, k_norm = self._wrap_cleanup(lambda kk: self.stmts(st.finalbody, kk, ctx), k, ctx, try_id)
        else:
            inner, k_norm = ctx, k
        handlers: List[Tuple[List[str], Node]] = []
        for h in st.handlers:
            types = self.hier.resolve(self.f.module, h.type)
            hctx = Ctx(inner.ret, inner.brk, inner.cont, inner.raise_, types, inner.ret_for)
            body = self.stmts(h.body, k_norm, hctx)
            hn = self.mk("handler", h, st)
            hn.types = types
            hn.try_id = try_id
            self.edge(hn, body)
            handlers.append((types, hn))

        def body_raise(tok: ExcTok, kind: str) -> List[Node]:
            out: List[Node] = []
            for types, hn in handlers:
                verdicts = [self.hier.catches(t, tok) for t in types]
                if "yes" in verdicts:
                    out.append(hn)
                    return out
                if "maybe" in verdicts:
                    out.append(hn)
            return out + inner.raise_(tok, kind)

        bctx = Ctx(inner.ret, inner.brk, inner.cont, body_raise, ctx.caught, inner.ret_for)
        else_entry = self.stmts(st.orelse, k_norm, inner) if st.orelse else k_norm
        tnode = self.mk("try", st, st)
        tnode.try_id = try_id
        self.edge(tnode, self.stmts(st.body, else_entry, bctx))
        return tnode

    def with_(self, st, items: List[ast.withitem], k: Node, ctx: Ctx) -> Node:
        if not items:
            return self.stmts(st.body, k, ctx)
        it, rest = items[0], items[1:]
        ce = it.context_expr
        is_async = isinstance(st, ast.AsyncWith)
        self._try_counter += 1
        try_id = (self.f.qual, st.lineno, self._try_counter)
        # contextlib.suppress(...)
        if isinstance(ce, ast.Call) and not is_async:
            cal = self.sc.callee(ce)
            if cal.kind == "ext" and cal.name == "contextlib.suppress":
                types: List[str] = []
                for a in ce.args:
                    types += self.hier.resolve(self.f.module, a)
                sup = self.mk("suppressed", st, st)
                sup.types = types
                sup.try_id = try_id
                self.edge(sup, k)

                def body_raise(tok: ExcTok, kind: str) -> List[Node]:
                    verdicts = [self.hier.catches(t, tok) for t in types]
                    if "yes" in verdicts:
                        return [sup]
                    if "maybe" in verdicts:
                        return [sup] + ctx.raise_(tok, kind)
                    return ctx.raise_(tok, kind)

                bctx = Ctx(ctx.ret, ctx.brk, ctx.cont, body_raise, ctx.caught, ctx.ret_for)
                body = self.with_(st, rest, k, bctx)
                wn = self.mk("with", st, st)
                wn.try_id = try_id
                self.edge(wn, body)
                return wn
        cm_ty = self.sc.ty(ce)

        def dunder(name: str) -> Optional[Callee]:
            if cm_ty is not None and cm_ty.head in self.an.prog.classes:
                m = self.an.prog.lookup(self.an.prog.classes[cm_ty.head], name)
                if m is not None:
                    return Callee("pkg", m.qual, [m], ce, cm_ty, access_path(ce))
            if cm_ty is not None:
                return Callee("ext", f"{cm_ty.head}.{name}", recv=ce, recv_ty=cm_ty, recv_path=access_path(ce))
            return Callee("unknown", f"?.{name}", recv=ce, recv_path=access_path(ce))

        def build_exit(kk: Node) -> Node:
            n = self.mk("exit_ctx", it, st)
            n.callee = dunder("__aexit__" if is_async else "__exit__")
            n.suspends = is_async
            toks: List[Tuple[str, ExcTok]] = []
            if n.callee.kind == "pkg":
                s = self.an.callee_summary(n.callee)
                n.suspends = s.suspends if is_async else False
                n.user = s.user
                toks += sorted(s.raises)
            elif is_async:
                toks.append(("c", (CANCELLED, True)))
            self.edge(n, kk)
            self.add_raises(n, ctx, toks)
            return n

        inner, k_norm = self._wrap_cleanup(build_exit, k, ctx, try_id)
        body = self.with_(st, rest, k_norm, inner)
        en = self.mk("enter", it, st)
        en.callee = dunder("__aenter__" if is_async else "__enter__")
        en.suspends = is_async
        en.try_id = try_id
        toks: List[Tuple[str, ExcTok]] = []
        if en.callee.kind == "pkg":
            s = self.an.callee_summary(en.callee)
            en.suspends = s.suspends if is_async else False
            en.user = s.user
            toks += sorted(s.raises)
        elif is_async:
            toks.append(("c", (CANCELLED, True)))
            if en.callee.kind == "unknown" or (cm_ty is not None and cm_ty.head in ("UserValue", "Any")):
                toks.append(("x", (EXCEPTION, False)))
        self.edge(en, body)
        self.add_raises(en, ctx, toks)  # failure to enter does not run the exit
        return self.expr(ce, en, ctx, st)

    # ------------------------------------------------------------------ build
    def build(self) -> CFG:
        g = self.g
        g.exit = self.mk("exit")
        top = Ctx((lambda: g.exit), None, None, (lambda tok, kind: [self.raise_exit(kind, tok)]))
        body = self.stmts(list(self.f.node.body), g.exit, top)
        g.entry = self.mk("entry")
        self.edge(g.entry, body)
        # steps no path from the entry reaches (e.g. the `raise helper()` statement itself once the returns of the spliced helper were
        # routed to raises of their own) take no part in anything: their edges are dropped, so that an exit only they lead to has no
        # predecessor
        live, work = {id(g.entry)}, [g.entry]
        while work:
            x = work.pop()
            for y, _lab in x.succ:
                if id(y) not in live:
                    live.add(id(y))
                    work.append(y)
        for n in g.nodes:
            if id(n) not in live and n.succ:
                for y, lab in n.succ:
                    y.pred = [(a, l_) for a, l_ in y.pred if a is not n]
                n.succ = []
        return g
