"""Exception-class hierarchy: the repository's own classes (from the AST) on top of CPython's."""
from __future__ import annotations

import ast
import importlib
from typing import Dict, List, Optional, Tuple

from .model import ClassInfo, Module, Program

ExcTok = Tuple[str, bool]  # (qualified class name, exact?)  exact=False: "this class or any subclass"

CANCELLED = "asyncio.exceptions.CancelledError"
EXCEPTION = "builtins.Exception"
BASE = "builtins.BaseException"
KEYERROR = "builtins.KeyError"

_STDLIB_ALIASES = {
    "asyncio.CancelledError": CANCELLED,
    "concurrent.futures.CancelledError": "concurrent.futures._base.CancelledError",
}


def _std_class(q: str):
    q = _STDLIB_ALIASES.get(q, q)
    mod, _, name = q.rpartition(".")
    if not mod:
        return None
    top = mod.split(".")[0]
    if top not in ("builtins", "asyncio", "argparse", "json", "concurrent", "socket", "ssl", "io", "os", "contextlib", "queue"):
        return None
    try:
        obj = getattr(importlib.import_module(mod), name)
    except Exception:
        return None
    if isinstance(obj, type) and issubclass(obj, BaseException):
        return obj
    return None


def _std_name(cls) -> str:
    return f"{cls.__module__}.{cls.__qualname__}"


class ExcHier:
    def __init__(self, prog: Program):
        self.prog = prog
        self._anc: Dict[str, List[str]] = {}

    def canon(self, q: str) -> str:
        q = _STDLIB_ALIASES.get(q, q)
        c = _std_class(q)
        if c is not None:
            return _std_name(c)
        return q

    def ancestors(self, q: str) -> List[str]:
        q = self.canon(q)
        if q in self._anc:
            return self._anc[q]
        out: List[str] = []
        if q in self.prog.classes:
            for k in self.prog.mro(self.prog.classes[q]):
                out.append(k.qual)
                for b in k.bases:
                    if b not in self.prog.classes:
                        for a in self.ancestors(b):
                            if a not in out:
                                out.append(a)
        else:
            c = _std_class(q)
            if c is not None:
                out = [_std_name(k) for k in c.__mro__ if k is not object]
            else:
                out = [q, EXCEPTION, BASE]  # unknown external exception class: assume an Exception
        self._anc[q] = out
        return out

    def is_sub(self, a: str, b: str) -> bool:
        return self.canon(b) in self.ancestors(a)

    def catches(self, handler_cls: str, tok: ExcTok) -> str:
        """'yes' | 'maybe' | 'no' — does `except handler_cls` catch an exception described by tok?"""
        cls, exact = tok
        if self.is_sub(cls, handler_cls):
            return "yes"
        if not exact and self.is_sub(handler_cls, cls):
            return "maybe"
        return "no"

    def resolve(self, m: Module, e: Optional[ast.expr]) -> List[str]:
        """Class names a handler type expression denotes (bare except -> BaseException)."""
        if e is None:
            return [BASE]
        if isinstance(e, ast.Tuple):
            out = []
            for el in e.elts:
                out += self.resolve(m, el)
            return out
        if isinstance(e, ast.Call):
            e = e.func
        if isinstance(e, ast.Name) and isinstance(m.assigns.get(e.id), ast.Tuple):
            # NAME = (ErrA, ErrB, ...) at module level, bound exactly once: `except NAME:` catches those classes
            n_bind = sum(1 for x in ast.walk(m.tree) if isinstance(x, ast.Name) and x.id == e.id and not isinstance(x.ctx, ast.Load))
            if n_bind == 1 and all(isinstance(x, (ast.Name, ast.Attribute)) for x in m.assigns[e.id].elts):
                return self.resolve(m, m.assigns[e.id])
        q = self.prog.resolve_name_in_module(m, e)
        return [self.canon(q)]

    @staticmethod
    def short(q: str) -> str:
        return q.rpartition(".")[2]
