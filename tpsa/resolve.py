"""E2/E3 — light type inference and call resolution over the program model."""
from __future__ import annotations

import ast
from dataclasses import dataclass, field
from typing import Dict, List, Optional, Tuple

from .model import AnalysisError, ClassInfo, FuncInfo, Module, Program

# canonical short heads for the external types this code base uses
_HEAD_ALIASES = {
    "typing.Dict": "dict", "builtins.dict": "dict", "typing.Mapping": "dict", "typing.MutableMapping": "dict",
    "typing.Set": "set", "builtins.set": "set", "typing.MutableSet": "set", "typing.FrozenSet": "set",
    "typing.List": "list", "builtins.list": "list", "typing.Sequence": "list",
    "typing.Tuple": "tuple", "builtins.tuple": "tuple",
    "typing.Iterable": "Iterable", "typing.Iterator": "Iterable", "typing.Container": "Iterable",
    "asyncio.locks.Semaphore": "Semaphore", "asyncio.Semaphore": "Semaphore", "asyncio.locks.BoundedSemaphore": "Semaphore",
    "asyncio.BoundedSemaphore": "Semaphore",
    "asyncio.locks.Event": "Event", "asyncio.Event": "Event",
    "asyncio.locks.Lock": "Lock", "asyncio.Lock": "Lock",
    "asyncio.tasks.Task": "Task", "asyncio.Task": "Task",
    "asyncio.streams.StreamWriter": "StreamWriter", "asyncio.StreamWriter": "StreamWriter",
    "asyncio.streams.StreamReader": "StreamReader", "asyncio.StreamReader": "StreamReader",
    "asyncio.AbstractServer": "Server", "asyncio.base_events.Server": "Server", "asyncio.events.AbstractServer": "Server",
    "asyncio.queues.Queue": "Queue", "asyncio.Queue": "Queue",
    "io.StringIO": "StringIO", "typing.IO": "IO",
    "logging.Logger": "Logger", "pathlib.Path": "Path",
    "builtins.int": "int", "builtins.str": "str", "builtins.bool": "bool", "builtins.float": "float",
    "builtins.property": "property", "inspect.Parameter": "Parameter",
    "typing.Callable": "Callable", "typing.Awaitable": "Awaitable", "typing.Coroutine": "Coroutine",
    "typing.Any": "Any", "builtins.object": "object",
}


@dataclass(frozen=True)
class Ty:
    head: str
    args: Tuple["Ty", ...] = ()

    def __str__(self) -> str:
        return self.head + (f"[{', '.join(map(str, self.args))}]" if self.args else "")


ANY = Ty("Any")


@dataclass
class Callee:
    kind: str  # pkg | ext | user | ctor | unknown
    name: str  # display / external qualified name
    targets: List[FuncInfo] = field(default_factory=list)
    recv: Optional[ast.expr] = None
    recv_ty: Optional[Ty] = None
    recv_path: Optional[str] = None
    cls: Optional[ClassInfo] = None  # for ctor of a package class

    def is_ext(self, *names: str) -> bool:
        return self.kind == "ext" and self.name in names


def access_path(e: ast.AST) -> Optional[str]:
    """'self._x', 'self._x._value', 'name' — None for anything else."""
    if isinstance(e, ast.Name):
        return e.id
    if isinstance(e, ast.Attribute):
        base = access_path(e.value)
        return None if base is None else f"{base}.{e.attr}"
    return None


class Scope:
    """Per-function name table: parameters, local definitions (flow-insensitive)."""

    def __init__(self, res: "Resolver", f: FuncInfo):
        self.res = res
        self.f = f
        self.prog = res.prog
        self.module = f.module
        self.cls: Optional[ClassInfo] = self.prog.enclosing_class(f)
        self.params = {p.arg: p for p in f.params()}
        a = f.node.args
        pos = list(a.posonlyargs) + list(a.args)
        self.selfname: Optional[str] = None
        if f.cls is not None and f.kind not in ("static",) and pos:
            self.selfname = pos[0].arg
        self.is_cls_self = f.kind == "class"
        # name -> list of ("assign", value_expr) | ("iter", iterable_expr, target_shape_index) | ("with", ctx_expr) | ("exc", type)
        self.defs: Dict[str, List[tuple]] = {}
        self.nested: Dict[str, FuncInfo] = {}
        self._collect()
        self._ty_cache: Dict[int, Optional[Ty]] = {}
        self._busy: set = set()

    # ------------------------------------------------------------ collection
    def _own_nodes(self):
        """All nodes of the function body, not descending into nested defs/lambdas/classes."""
        stack = list(reversed(self.f.node.body))
        while stack:
            n = stack.pop()
            if isinstance(n, (ast.FunctionDef, ast.AsyncFunctionDef, ast.ClassDef, ast.Lambda)):
                if isinstance(n, (ast.FunctionDef, ast.AsyncFunctionDef)):
                    q = f"{self.f.qual}.<locals>.{n.name}"
                    if q in self.prog.functions:
                        self.nested[n.name] = self.prog.functions[q]
                continue
            yield n
            stack.extend(reversed(list(ast.iter_child_nodes(n))))

    def _bind_target(self, tgt: ast.expr, how: tuple) -> None:
        if isinstance(tgt, ast.Name):
            self.defs.setdefault(tgt.id, []).append(how)
        elif isinstance(tgt, (ast.Tuple, ast.List)):
            for i, el in enumerate(tgt.elts):
                self._bind_target(el, ("elt", how, i))
        elif isinstance(tgt, ast.Starred):
            self._bind_target(tgt.value, ("star", how))

    def _collect(self) -> None:
        for n in self._own_nodes():
            if isinstance(n, ast.Assign):
                for t in n.targets:
                    if isinstance(t, (ast.Tuple, ast.List)) and isinstance(n.value, (ast.Tuple, ast.List)) and len(t.elts) == len(n.value.elts):
                        for te, ve in zip(t.elts, n.value.elts):
                            self._bind_target(te, ("assign", ve))
                    else:
                        self._bind_target(t, ("assign", n.value))
            elif isinstance(n, ast.AnnAssign) and n.value is not None:
                self._bind_target(n.target, ("ann", n.annotation, n.value))
            elif isinstance(n, ast.AugAssign):
                pass
            elif isinstance(n, (ast.For, ast.AsyncFor)):
                self._bind_target(n.target, ("iter", n.iter))
            elif isinstance(n, ast.comprehension):
                self._bind_target(n.target, ("iter", n.iter))
            elif isinstance(n, (ast.With, ast.AsyncWith)):
                for it in n.items:
                    if it.optional_vars is not None:
                        self._bind_target(it.optional_vars, ("with", it.context_expr))
            elif isinstance(n, ast.ExceptHandler) and n.name:
                self.defs.setdefault(n.name, []).append(("exc", n.type))
            elif isinstance(n, ast.NamedExpr):
                self._bind_target(n.target, ("assign", n.value))

    # ------------------------------------------------------------------ types
    def ann_ty(self, ann: Optional[ast.expr], module: Optional[Module] = None) -> Optional[Ty]:
        module = module or self.module
        if ann is None:
            return None
        if isinstance(ann, ast.Constant):
            if isinstance(ann.value, str):
                try:
                    return self.ann_ty(ast.parse(ann.value, mode="eval").body, module)
                except SyntaxError:
                    return None
            if ann.value is None:
                return Ty("None")
            return None
        if isinstance(ann, ast.BinOp) and isinstance(ann.op, ast.BitOr):
            l, r = self.ann_ty(ann.left, module), self.ann_ty(ann.right, module)
            if l is not None and l.head == "None":
                return r
            if r is not None and r.head == "None":
                return l
            return l if l == r else None
        if isinstance(ann, ast.Subscript):
            base = self.ann_ty(ann.value, module)
            if base is None:
                return None
            sl = ann.slice
            elts = sl.elts if isinstance(sl, ast.Tuple) else [sl]
            args = tuple(self.ann_ty(e, module) or ANY for e in elts)
            if base.head in ("typing.Optional", "Optional"):
                return args[0]
            if base.head in ("typing.Union", "Union"):
                non = [a for a in args if a.head != "None"]
                return non[0] if len(non) == 1 else None
            if base.head in ("typing.ClassVar", "ClassVar", "typing.Type", "Type", "builtins.type"):
                return Ty("type", args) if "Type" in base.head or base.head.endswith("type") else args[0]
            return Ty(base.head, args)
        if isinstance(ann, (ast.Name, ast.Attribute)):
            q = self.prog.resolve_name_in_module(module, ann)
            # alias defined by module-level assignment in a package module (e.g. internals.types.EndCB)
            head = _HEAD_ALIASES.get(q, q)
            if head in self.prog.classes:
                return Ty(head)
            modname, _, nm = q.rpartition(".")
            if modname in self.prog.modules and nm in self.prog.modules[modname].assigns:
                t = self.ann_ty(self.prog.modules[modname].assigns[nm], self.prog.modules[modname])
                if t is not None:
                    return t
            return Ty(head)
        return None

    def self_ty(self) -> Optional[Ty]:
        if self.cls is None:
            return None
        return Ty(self.cls.qual)

    def ty(self, e: ast.AST) -> Optional[Ty]:
        key = id(e)
        if key in self._ty_cache:
            return self._ty_cache[key]
        if key in self._busy:
            return None
        self._busy.add(key)
        try:
            t = self._ty(e)
        finally:
            self._busy.discard(key)
        self._ty_cache[key] = t
        return t

    def _elem(self, t: Optional[Ty]) -> Optional[Ty]:
        if t is None:
            return None
        if t.head in ("set", "list", "Iterable") and t.args:
            return t.args[0]
        if t.head == "dict" and t.args:
            return t.args[0]
        if t.head == "tuple" and t.args:
            return t.args[0]
        if t.head in self.prog.classes:
            # MutableSet[int] subclasses etc.
            c = self.prog.classes[t.head]
            for k in self.prog.mro(c):
                for b in k.base_exprs:
                    bt = self.ann_ty(b, k.module)
                    if bt is not None and bt.head in ("set", "list", "Iterable") and bt.args:
                        return bt.args[0]
        return None

    def _how_ty(self, how: tuple) -> Optional[Ty]:
        k = how[0]
        if k == "assign":
            return self.ty(how[1])
        if k == "ann":
            return self.ann_ty(how[1]) or self.ty(how[2])
        if k == "iter":
            it = how[1]
            if isinstance(it, ast.Call) and isinstance(it.func, ast.Name) and it.func.id == "enumerate" and it.args:
                return Ty("tuple", (Ty("int"), self._elem(self.ty(it.args[0])) or ANY))
            if isinstance(it, ast.Call) and isinstance(it.func, ast.Name) and it.func.id in ("reversed", "iter", "sorted", "list", "tuple", "set") and it.args:
                return self._elem(self.ty(it.args[0]))
            return self._elem(self.ty(it))
        if k == "with":
            return self.ty(how[1])
        if k == "exc":
            return self.ann_ty(how[1]) if how[1] is not None and not isinstance(how[1], ast.Tuple) else Ty("builtins.Exception")
        if k == "elt":
            base = self._how_ty(how[1])
            if base is not None and base.head == "tuple" and len(base.args) > how[2]:
                return base.args[how[2]]
            return None
        return None

    def name_ty(self, name: str) -> Optional[Ty]:
        if self.selfname == name:
            t = self.self_ty()
            if self.is_cls_self and t is not None:
                return Ty("type", (t,))
            return t
        if name in self.params:
            p = self.params[name]
            a = self.f.node.args
            if a.vararg is p:
                return Ty("tuple", (self.ann_ty(p.annotation) or ANY,))
            if a.kwarg is p:
                return Ty("dict", (Ty("str"), self.ann_ty(p.annotation) or ANY))
            return self.ann_ty(p.annotation)
        if name in self.defs:
            tys = [self._how_ty(h) for h in self.defs[name]]
            tys = [t for t in tys if t is not None and t.head not in ("None",)]
            if tys and all(t == tys[0] for t in tys):
                return tys[0]
            if tys:
                heads = {t.head for t in tys}
                if len(heads) == 1:
                    return tys[0]
            return None
        # closure variable of an enclosing function
        if self.f.parent is not None:
            return self.res.scope(self.f.parent).name_ty(name)
        q = self.prog.resolve_name_in_module(self.module, ast.Name(id=name))
        if name == "log" or q.endswith(".log"):
            return Ty("Logger")
        if name in self.module.assigns:
            v = self.module.assigns[name]
            if isinstance(v, ast.Call):
                qq = self.prog.resolve_name_in_module(self.module, v.func)
                if qq.endswith("getLogger"):
                    return Ty("Logger")
        return None

    def _ret_ty(self, f: FuncInfo) -> Optional[Ty]:
        sc = self.res.scope(f)
        return sc.ann_ty(f.node.returns)

    def _ty(self, e: ast.AST) -> Optional[Ty]:
        if isinstance(e, ast.Name):
            return self.name_ty(e.id)
        if isinstance(e, ast.Await):
            t = self.ty(e.value)
            return t
        if isinstance(e, ast.Attribute):
            bt = self.ty(e.value)
            if bt is None:
                return None
            if bt.head == "type" and bt.args:
                bt2 = bt.args[0]
                if bt2.head in self.prog.classes:
                    fld = self.prog.lookup_field(self.prog.classes[bt2.head], e.attr)
                    if fld is not None and fld[0] is not None:
                        return self.res.scope_for_class(self.prog.classes[bt2.head]).ann_ty(fld[0])
                return None
            if bt.head in self.prog.classes:
                c = self.prog.classes[bt.head]
                fld = self.prog.lookup_field(c, e.attr)
                if fld is not None:
                    ann, val, where = fld
                    if ann is not None:
                        mod = where.module if where is not None else c.module
                        # find declaring class module for class attrs
                        return self.ann_ty(ann, mod)
                    if val is not None and where is not None:
                        return self.res.scope(where).ty(val)
                    return None
                m = self.prog.lookup(c, e.attr)
                if m is not None and m.kind == "property":
                    return self._ret_ty(m)
                return None
            if bt.head == "Semaphore" and e.attr == "_value":
                return Ty("int")
            return None
        if isinstance(e, ast.Subscript):
            bt = self.ty(e.value)
            if bt is not None and bt.head == "dict" and len(bt.args) == 2:
                return bt.args[1]
            if bt is not None and bt.head == "list" and bt.args:
                return bt.args[0]
            return None
        if isinstance(e, ast.Call):
            cal = self.callee(e)
            if cal.kind == "ctor":
                return Ty(cal.cls.qual) if cal.cls is not None else Ty(_HEAD_ALIASES.get(cal.name, cal.name))
            if cal.kind == "pkg" and cal.targets:
                return self._ret_ty(cal.targets[0])
            if cal.kind == "user":
                return Ty("UserValue")
            if cal.kind == "ext":
                rt = cal.recv_ty
                meth = cal.name.rpartition(".")[2]
                if rt is not None and rt.head == "dict" and len(rt.args) == 2:
                    if meth in ("pop", "get", "setdefault", "__getitem__"):
                        return rt.args[1]
                    if meth == "values":
                        return Ty("Iterable", (rt.args[1],))
                    if meth == "keys":
                        return Ty("Iterable", (rt.args[0],))
                    if meth == "items":
                        return Ty("Iterable", (Ty("tuple", rt.args),))
                    if meth == "popitem":
                        return Ty("tuple", rt.args)
                    if meth == "copy":
                        return rt
                if rt is not None and rt.head in ("set", "list") and rt.args:
                    if meth == "pop":
                        return rt.args[0]
                    if meth == "copy":
                        return rt
                if cal.name in ("builtins.list", "builtins.set", "builtins.tuple", "builtins.sorted", "builtins.reversed", "builtins.iter") and e.args:
                    el = self._elem(self.ty(e.args[0]))
                    return Ty({"builtins.set": "set"}.get(cal.name, "list"), (el or ANY,))
                if cal.name == "builtins.dict" and e.args:
                    return self.ty(e.args[0])
                if cal.name in ("builtins.set", "builtins.list", "builtins.dict") and not e.args:
                    return Ty(cal.name.split(".")[1], (ANY,) if cal.name != "builtins.dict" else (ANY, ANY))
                if cal.name in ("asyncio.tasks.create_task", "asyncio.create_task", "asyncio.ensure_future", "asyncio.tasks.ensure_future"):
                    return Ty("Task", (ANY,))
                if cal.name.endswith("getLogger"):
                    return Ty("Logger")
            return None
        if isinstance(e, ast.ListComp):
            return Ty("list", (self.ty(e.elt) or ANY,))
        if isinstance(e, ast.SetComp):
            return Ty("set", (self.ty(e.elt) or ANY,))
        if isinstance(e, ast.GeneratorExp):
            return Ty("Iterable", (self.ty(e.elt) or ANY,))
        if isinstance(e, ast.List):
            return Ty("list", (self.ty(e.elts[0]) or ANY,) if e.elts else (ANY,))
        if isinstance(e, ast.Set):
            return Ty("set", (ANY,))
        if isinstance(e, ast.Dict):
            return Ty("dict", (ANY, ANY))
        if isinstance(e, ast.BoolOp):
            # `a or b` / `a and b` evaluate to one of the operands: typed when all of them have the same type
            tys = [self.ty(v) for v in e.values]
            if tys and all(t is not None for t in tys) and all(t.head == tys[0].head for t in tys):
                return tys[0]
            return None
        if isinstance(e, ast.IfExp):
            return self.ty(e.body) or self.ty(e.orelse)
        if isinstance(e, ast.NamedExpr):
            return self.ty(e.value)
        if isinstance(e, ast.Constant):
            return Ty(type(e.value).__name__ if e.value is not None else "None")
        if isinstance(e, ast.JoinedStr):
            return Ty("str")
        return None

    # -------------------------------------------------------- call resolution
    def _is_user_callable_name(self, name: str) -> bool:
        if name in self.nested or name == self.selfname:
            return False
        if name in self.params:
            return True
        if name not in self.defs and self.f.parent is not None:
            return self.res.scope(self.f.parent)._is_user_callable_name(name)
        return False

    def callee(self, call: ast.Call) -> Callee:
        fn = call.func
        prog = self.prog
        if isinstance(fn, ast.Name):
            name = fn.id
            if name in self.nested:
                return Callee("pkg", self.nested[name].qual, [self.nested[name]])
            if self._is_user_callable_name(name):
                return Callee("user", name)
            if name in self.defs:
                # a local bound to something callable: follow one assignment
                hows = self.defs[name]
                if len(hows) == 1 and hows[0][0] == "assign" and isinstance(hows[0][1], (ast.Name, ast.Attribute)):
                    fake = ast.Call(func=hows[0][1], args=call.args, keywords=call.keywords)
                    return self.callee(fake)
                return Callee("unknown", name)
            if name == "super":
                return Callee("ext", "builtins.super")
            q = prog.resolve_name_in_module(self.module, fn)
            if q in prog.functions:
                return Callee("pkg", q, [prog.functions[q]])
            if q in prog.classes:
                return Callee("ctor", q, cls=prog.classes[q])
            # module-level alias (e.g. `classmethod = ...`)
            if q.startswith("builtins.") or "." in q:
                head = _HEAD_ALIASES.get(q)
                if head in ("Semaphore", "Event", "Lock", "StringIO", "Queue", "Path", "dict", "set", "list", "tuple"):
                    if head in ("dict", "set", "list", "tuple"):
                        return Callee("ext", f"builtins.{head}")
                    return Callee("ctor", q)
                return Callee("ext", q)
            return Callee("unknown", name)
        if isinstance(fn, ast.Attribute):
            recv = fn.value
            meth = fn.attr
            # super().m(...)
            if isinstance(recv, ast.Call) and isinstance(recv.func, ast.Name) and recv.func.id == "super":
                if self.cls is not None:
                    mro = prog.mro(self.cls)
                    for k in mro[1:]:
                        if meth in k.methods:
                            return Callee("pkg", k.methods[meth].qual, [k.methods[meth]], recv=recv)
                    ext = prog.external_bases(self.cls)
                    return Callee("ext", f"super({ext[0] if ext else '?'}).{meth}", recv=recv)
                return Callee("unknown", f"super().{meth}")
            # module attribute: mod.func
            if isinstance(recv, ast.Name) and recv.id in self.module.imports and recv.id not in self.params and recv.id not in self.defs:
                q = prog.canon(self.module.imports[recv.id]) + "." + meth
                if q in prog.functions:
                    return Callee("pkg", q, [prog.functions[q]])
                if q in prog.classes:
                    return Callee("ctor", q, cls=prog.classes[q])
                return Callee("ext", q)
            # ClassName.method(...): a static / class method (or a plain method called through its class)
            if isinstance(recv, ast.Name) and recv.id not in self.params and recv.id not in self.defs:
                cq = prog.resolve_name_in_module(self.module, recv)
                if cq in prog.classes:
                    m = prog.lookup(prog.classes[cq], meth)
                    if m is not None:
                        return Callee("pkg", m.qual, [m], recv, None, access_path(recv))
            rt = self.ty(recv)
            path = access_path(recv)
            if rt is not None:
                if rt.head == "type" and rt.args and rt.args[0].head in prog.classes:
                    c = prog.classes[rt.args[0].head]
                    m = prog.lookup(c, meth)
                    if m is not None:
                        return Callee("pkg", m.qual, [m], recv, rt, path)
                if rt.head in prog.classes:
                    c = prog.classes[rt.head]
                    m = prog.lookup(c, meth)
                    if m is not None:
                        targets = [m]
                        # virtual dispatch: overrides in subclasses
                        for sub in prog.subclasses(c, strict=True):
                            if meth in sub.methods and sub.methods[meth] not in targets:
                                targets.append(sub.methods[meth])
                        return Callee("pkg", m.qual, targets, recv, rt, path)
                    fld = prog.lookup_field(c, meth)
                    if fld is not None:
                        # calling a field: user-supplied callable (e.g. self._func) or stored function
                        return Callee("user", f"{path or '?'}.{meth}", recv=recv, recv_ty=rt, recv_path=path)
                    ext = prog.external_bases(c)
                    ext = [_HEAD_ALIASES.get(b, b) for b in ext if b not in ("abc.ABC", "typing.Generic", "typing.Protocol")]
                    if ext:
                        return Callee("ext", f"{ext[0]}.{meth}", recv=recv, recv_ty=rt, recv_path=path)
                    return Callee("unknown", f"{rt.head}.{meth}", recv=recv, recv_ty=rt, recv_path=path)
                if rt.head == "property" and meth in ("fget", "fset", "fdel"):
                    return Callee("user", f"{path or '?'}.{meth}", recv=recv, recv_ty=rt, recv_path=path)
                return Callee("ext", f"{rt.head}.{meth}", recv=recv, recv_ty=rt, recv_path=path)
            # untyped receiver
            if isinstance(recv, ast.Name) and self._is_user_callable_name(recv.id):
                return Callee("ext", f"<param {recv.id}>.{meth}", recv=recv, recv_path=path)
            return Callee("unknown", f"?.{meth}", recv=recv, recv_path=path)
        return Callee("unknown", ast.unparse(fn))


class Resolver:
    def __init__(self, prog: Program):
        self.prog = prog
        self._scopes: Dict[str, Scope] = {}

    def scope(self, f: FuncInfo) -> Scope:
        s = self._scopes.get(f.qual)
        if s is None:
            s = Scope(self, f)
            self._scopes[f.qual] = s
        return s

    def scope_for_class(self, c: ClassInfo) -> Scope:
        for f in c.methods.values():
            return self.scope(f)
        raise AnalysisError(f"class {c.qual} has no methods")
