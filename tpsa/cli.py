"""Command line: bin/tpsa check <Cxx> [--tier quick|thorough] | explain <replay.json> | dump <func>."""
from __future__ import annotations

import argparse
import importlib
import json
import os
import sys
import traceback

from .model import AnalysisError, Program
from .report import Report


def run_check(prop: str, tier: str, repo: str, seed: int, write: bool = True, rep_out: list = None) -> int:
    rep = Report(prop, tier, seed)
    if rep_out is not None:
        rep_out.append(rep)
    if not write:
        try:
            mod = importlib.import_module(f"tpsa.rules.{prop.lower()}")
            from .rules.lib import Ctx

            ctx_ = Ctx(Program(repo), rep, tier)
            mod.check(ctx_)
            from .rules.lib import r_decorated, r_module_state
            r_decorated(ctx_)
            r_module_state(ctx_)
            return rep.code()
        except AnalysisError as e:
            rep.notes.append(f"ANALYSIS-ERROR {e}")
            return 2
        except Exception as e:
            rep.notes.append("internal error: " + traceback.format_exc())
            return 2
    try:
        mod = importlib.import_module(f"tpsa.rules.{prop.lower()}")
        from .rules.lib import Ctx

        prog = Program(repo)
        ctx = Ctx(prog, rep, tier)
        mod.check(ctx)
        from .rules.lib import r_decorated, r_module_state
        r_decorated(ctx)
        r_module_state(ctx)
        if tier == "thorough":
            from .thorough import extras

            extras(ctx, prop)
        return rep.finish()
    except AnalysisError as e:
        print(f"ANALYSIS-ERROR property={prop} {e}")
        _error_evidence(rep, str(e))
        return 2
    except Exception as e:  # never let a traceback look like a verdict
        traceback.print_exc()
        print(f"ANALYSIS-ERROR property={prop} internal error: {type(e).__name__}: {e}")
        _error_evidence(rep, f"internal error: {type(e).__name__}: {e}")
        return 2


def _error_evidence(rep: Report, msg: str) -> None:
    from .report import Obligation

    rep.obs.append(Obligation("ENGINE", "analysis completed", "inconclusive", detail=msg))
    try:
        rep.finish()
    except Exception:
        pass


def main(argv=None) -> int:
    ap = argparse.ArgumentParser(prog="tpsa")
    sub = ap.add_subparsers(dest="cmd", required=True)
    c = sub.add_parser("check")
    c.add_argument("prop")
    c.add_argument("--tier", default=os.environ.get("VERIF_TIER", "quick"), choices=["quick", "thorough"])
    c.add_argument("--repo", default=os.environ.get("TPSA_REPO", "/repo"))
    e = sub.add_parser("explain")
    e.add_argument("file")
    e.add_argument("--repo", default=os.environ.get("TPSA_REPO", "/repo"))
    d = sub.add_parser("dump")
    d.add_argument("func")
    d.add_argument("--repo", default=os.environ.get("TPSA_REPO", "/repo"))
    a = ap.parse_args(argv)
    try:
        seed = int(os.environ.get("VERIF_SEED", "0"))
    except ValueError:
        seed = 0
    if a.cmd == "check":
        if os.path.realpath(a.repo) != os.path.realpath("/repo") and not os.environ.get("TPSA_EVIDENCE_DIR"):
            import tempfile
            os.environ["TPSA_EVIDENCE_DIR"] = os.path.join(tempfile.gettempdir(), "tpsa-evidence-scratch")
        code = run_check(a.prop.upper(), a.tier, a.repo, seed)
        sys.stdout.flush()
        sys.stderr.flush()
        os._exit(code)  # skip the slow interpreter teardown after a mypy build
    if a.cmd == "explain":
        with open(a.file) as fh:
            r = json.load(fh)
        print(json.dumps(r, indent=1))
        print(f"--- re-evaluating {r['property']} ({r['rule']} in {r['function']}) on the current tree ---")
        return run_check(r["property"], r.get("tier", "quick"), a.repo, seed)
    if a.cmd == "dump":
        from .cfg import Analyzer

        prog = Program(a.repo)
        an = Analyzer(prog)
        print(an.cfg(prog.func(a.func)).dump())
        return 0
    return 2


if __name__ == "__main__":
    sys.exit(main())
