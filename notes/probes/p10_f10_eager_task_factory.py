import asyncio, sys
from asyncio_taskpool import TaskPool
async def quick(): return 1
async def slow():
    await asyncio.sleep(0.01)
async def main():
    asyncio.get_running_loop().set_task_factory(asyncio.eager_task_factory)
    pool = TaskPool(2)
    ended = []
    pool.apply(quick, num=3, end_callback=ended.append)
    await asyncio.sleep(0.2)
    print("quick: ended cb", ended, "running", pool.num_running, "ended", pool.num_ended, "full", pool.is_full)
    pool2 = TaskPool(2)
    ended2 = []
    pool2.apply(slow, num=3, end_callback=ended2.append)
    await asyncio.sleep(0.3)
    print("slow: ended cb", ended2, "running", pool2.num_running, "ended", pool2.num_ended, "full", pool2.is_full)
asyncio.run(main())
