import asyncio, io, sys, logging, warnings
sys.path.insert(0, "/tmp/probe")
import p5  # installs scratch patch of _get_type_from_annotation
from unittest.mock import MagicMock, AsyncMock
from asyncio_taskpool import TaskPool, SimpleTaskPool
from asyncio_taskpool.control.session import ControlSession
logging.disable(logging.NOTSET)
warnings.simplefilter("ignore")
async def w(x=1): await asyncio.sleep(3600)
async def main():
    for mk in (lambda: TaskPool(name="T"), lambda: SimpleTaskPool(w, name="S")):
        pool = mk()
        srv = MagicMock(pool=pool, client_class_name="X")
        sess = ControlSession(srv, MagicMock(), MagicMock())
        sess._reader.readline = AsyncMock(return_value=b'{"terminal_width": 80}\n')
        sess._writer.drain = AsyncMock()
        await sess.client_handshake()
        lines = ["--", "-", "-h", "--help x", "-x", "''", "num-running --", "cancel -- -1", "cancel -1", "pool-size -- -5", "\x00", "apply p7.w -n x", "apply p7.w -e p7.nocb", "flush -r", "flush -r x", "flush --return-exceptions", "lock extra", "é", "cancel 1e3", "start 2" , "stop -1", "stop-all", "func-name"]
        for l in lines:
            try:
                await asyncio.wait_for(sess._parse_command(l), 1)
                out = sess._response_buffer.getvalue(); sess._response_buffer.seek(0); sess._response_buffer.truncate()
                print(type(pool).__name__, repr(l), "->", repr(out[-150:]))
            except BaseException as e:
                print(type(pool).__name__, repr(l), "ESCAPED", repr(e))
                sess._response_buffer.seek(0); sess._response_buffer.truncate()
        pool.cancel_all()
    sys.stdout.flush(); import os; os._exit(0)
asyncio.run(main())
