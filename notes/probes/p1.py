import asyncio, logging, warnings
from asyncio_taskpool import TaskPool, SimpleTaskPool
logging.disable(logging.CRITICAL)

async def work(ev=None, rec=None, tag=None):
    if rec is not None: rec.append(('start', tag))
    try:
        if ev is None:
            await asyncio.sleep(3600)
        else:
            await ev.wait()
    finally:
        if rec is not None: rec.append(('end', tag))

async def settle(n=20):
    for _ in range(n): await asyncio.sleep(0)

async def c15():
    print("== C15 pool_size getter/setter")
    p = TaskPool(pool_size=5)
    ev = asyncio.Event()
    p.apply(work, args=(ev,), num=3)
    await settle()
    print(" size=5, running", p.num_running, "pool_size reports", p.pool_size)
    p.pool_size = 4
    p.apply(work, args=(ev,), num=10)
    await settle()
    print(" after set 4: running", p.num_running, "pool_size", p.pool_size)
    ev.set(); await settle(); 
    p.cancel_all(); await settle()
    # increase wakes waiters?
    p = TaskPool(pool_size=1)
    ev = asyncio.Event()
    p.apply(work, args=(ev,), num=3); await settle()
    print(" size1: running", p.num_running)
    p.pool_size = 3; await settle()
    print(" after set 3: running", p.num_running, "(expected 3)")
    ev.set(); await settle()

async def c02_cancel_before_first_step():
    print("== C02 cancel before first step")
    p = TaskPool(pool_size=2)
    rec=[]
    ended=[]
    g = p.apply(work, args=(None, rec, 'a'), num=1, end_callback=lambda i: ended.append(i))
    await asyncio.sleep(0)   # spawner runs, creates task; task not yet stepped
    print(" running", p.num_running, "rec", rec)
    try:
        p.cancel(0)
    except Exception as e: print(" cancel err", repr(e))
    await settle()
    print(" after cancel: running", p.num_running, "cancelled", p.num_cancelled, "ended", p.num_ended, "rec", rec, "endcb", ended, "pool_size(free)", p._enough_room._value)
    try:
        await asyncio.wait_for(p.gather_and_close(), 1)
        print(" gather ok")
    except BaseException as e:
        print(" gather raised", repr(e))

async def c04_lock_midway():
    print("== C04 lock after accepted")
    p = TaskPool(pool_size=2)
    rec=[]; ev=asyncio.Event()
    g = p.apply(work, args=(ev, rec, 'x'), num=5)
    await settle()
    p.lock()
    ev.set()
    await settle(50)
    print(" starts:", sum(1 for r in rec if r[0]=='start'), "of 5")
    try:
        await asyncio.wait_for(p.gather_and_close(), 1); print(" gather ok")
    except BaseException as e: print(" gather raised", repr(e))
    # gather_and_close directly
    p = TaskPool(pool_size=2)
    rec=[]; ev=asyncio.Event(); ev.set()
    g = p.apply(work, args=(ev, rec, 'x'), num=5)
    try:
        await asyncio.wait_for(p.gather_and_close(), 1); print(" gather ok; starts", sum(1 for r in rec if r[0]=='start'))
    except BaseException as e: print(" gather raised", repr(e), "starts", sum(1 for r in rec if r[0]=='start'))
    sp = SimpleTaskPool(work, args=(ev, rec, 's'), pool_size=2)
    rec.clear()
    sp.start(5)
    try:
        await asyncio.wait_for(sp.gather_and_close(), 1); print(" simple gather ok; starts", sum(1 for r in rec if r[0]=='start'))
    except BaseException as e: print(" simple gather raised", repr(e), "starts", sum(1 for r in rec if r[0]=='start'))

async def c08_cancelled_unstarted_spawner():
    print("== C08 cancelled never-started spawner + map")
    p = TaskPool(pool_size=2)
    rec=[]; ev=asyncio.Event()
    g1 = p.apply(work, args=(ev, rec, 'a'), num=1)
    p.cancel_group(g1)
    g2 = p.map(work, [ev]*6, num_concurrent=2)
    async def later():
        await asyncio.sleep(0.05); ev.set()
    t = asyncio.create_task(later())
    try:
        await asyncio.wait_for(p.gather_and_close(), 1)
        live = p.num_running
        print(" gather returned; tasks created so far", p._num_started, "closed", p._closed.is_set())
    except BaseException as e: print(" gather raised", repr(e))
    await t; await settle(50)
    print(" after: started", p._num_started, "running", p.num_running)

async def main():
    for f in (c15, c02_cancel_before_first_step, c04_lock_midway, c08_cancelled_unstarted_spawner):
        try:
            await f()
        except BaseException as e:
            print(" PROBE ERROR", repr(e))
warnings.simplefilter("ignore")
asyncio.run(main())
