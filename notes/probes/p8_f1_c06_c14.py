import asyncio, logging, warnings, os, sys
from asyncio_taskpool import TaskPool, SimpleTaskPool
logging.disable(logging.CRITICAL); warnings.simplefilter("ignore")
async def settle(n=30):
    for _ in range(n): await asyncio.sleep(0)
started=[]; cancelled=[]
async def w(tag=None):
    started.append(tag)
    try: await asyncio.sleep(3600)
    except asyncio.CancelledError:
        cancelled.append(tag); raise
async def c06():
    p = TaskPool()
    p.apply(w, args=("a",)); await asyncio.sleep(0)
    p.cancel(0); await settle()
    try:
        p.cancel(0); print("C06/F1: second cancel(0) raised nothing (expected AlreadyCancelled/AlreadyEnded); worker ever started:", started)
    except Exception as e: print("C06/F1: second cancel raised", type(e).__name__)
async def c14():
    started.clear(); cancelled.clear()
    n=[0]
    async def ww():
        i=n[0]; n[0]+=1; await w(i)
    sp = SimpleTaskPool(ww)
    sp.start(3); await asyncio.sleep(0)
    first = sp.stop(1); await settle()
    second = sp.stop(1); await settle()
    print("C14/F1: first stop(1) ->", first, "; second stop(1) ->", second, "; workers that observed CancelledError:", cancelled, "; live started workers:", started)
async def main():
    await c06(); await c14(); sys.stdout.flush(); os._exit(0)
asyncio.run(main())
