import asyncio, sys
from asyncio_taskpool import TaskPool

async def main():
    pool = TaskPool()
    log = []
    async def sleeper():
        await asyncio.sleep(10)
    async def housekeeper():
        # worker of group g: cancels another group and then flushes
        pool.cancel_group("h")
        await pool.flush()
        log.append("survived flush")
        for _ in range(20):
            await asyncio.sleep(0.01)
            log.append("work")
    async def canceller():
        pool.cancel_group("g")
        log.append("cancel_group(g) issued")
    pool.apply(sleeper, group_name="h", num=3)   # meta task of h still running? spawner ends quickly (unbounded)
    await asyncio.sleep(0.05)
    # make a long-lived meta task for h2: map with a bounded concurrency so the consumer waits
    pool2 = None
    pool.map(lambda_coro, range(100), num_concurrent=1, group_name="h") if False else None
    return pool, log
async def lambda_coro(x):
    await asyncio.sleep(10)

async def main2():
    pool = TaskPool()
    log = []
    async def housekeeper():
        pool.cancel_group("h")
        await pool.flush()
        log.append("survived flush")
        for _ in range(20):
            await asyncio.sleep(0.01)
            log.append("work")
    async def canceller():
        pool.cancel_group("g")
        log.append("cancel issued")
    pool.map(lambda_coro, range(100), num_concurrent=1, group_name="h")   # meta task of h keeps waiting on its semaphore
    await asyncio.sleep(0.05)
    pool.apply(housekeeper, group_name="g")
    await asyncio.sleep(0)   # spawner of g runs, creates housekeeper task
    await asyncio.sleep(0)
    # now schedule: housekeeper task is ready; create canceller behind it in the ready queue
    t = asyncio.create_task(canceller())
    await asyncio.sleep(0.5)
    print(log[:5], len(log))
    bad = "survived flush" in log
    pool.cancel_all()
    try:
        await asyncio.wait_for(pool.gather_and_close(return_exceptions=True), 2)
    except Exception as e:
        print("close:", repr(e))
    print("VIOLATION" if bad else "OK")
    sys.exit(1 if bad else 0)
asyncio.run(main2())
