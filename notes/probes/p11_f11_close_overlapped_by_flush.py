"""F11 probe: gather_and_close() overlapped by a flush() raises RuntimeError (dictionary changed size during iteration)
although no task or callback raised."""
import asyncio, sys
from asyncio_taskpool import TaskPool

async def work(x):
    await asyncio.sleep(0.01)

async def main():
    pool = TaskPool()
    pool.apply(work, args=(1,), group_name="done-group")       # its spawner finishes at once
    await asyncio.sleep(0)
    await asyncio.sleep(0)
    fl = asyncio.create_task(pool.flush())
    gac = asyncio.create_task(pool.gather_and_close())
    pool.map(work, range(5), num_concurrent=1, group_name="busy")
    pool.cancel_group("busy")          # a cancelled spawner that has not run yet: the first wait of both calls really suspends
    try:
        await asyncio.wait_for(gac, 5)
    except RuntimeError as e:
        print("VIOLATION: gather_and_close raised", repr(e), "- no task or callback raised")
        return 1
    finally:
        fl.cancel()
    print("ok: gather_and_close returned normally; closed:", pool._closed.is_set())
    return 0

sys.exit(asyncio.run(main()))
