import asyncio, logging, warnings, json, os, sys, io, traceback
from ast import literal_eval
from asyncio_taskpool import TaskPool, SimpleTaskPool
from asyncio_taskpool.control import parser as P
from asyncio_taskpool.control.server import TCPControlServer, UnixControlServer
from asyncio_taskpool.internals.helpers import resolve_dotted_path
logging.disable(logging.CRITICAL)
warnings.simplefilter("ignore")

orig = P._get_type_from_annotation
def patched(annotation):
    if isinstance(annotation, str):
        a = annotation.replace(" ", "")
        if a in ("int","str","float","bool"): annotation = {"int":int,"str":str,"float":float,"bool":bool}[a]
        elif a in ("str|None",): annotation = str
        elif a.startswith("Callable") or a.startswith("EndCB") or a.startswith("CancelCB"): annotation = resolve_dotted_path
        elif a.startswith("Iterable") or a.startswith("_P."): annotation = literal_eval
        else:
            print("UNMAPPED", annotation); annotation = str
    return P._get_arg_type_wrapper(annotation)
P._get_type_from_annotation = patched

async def settle(n=20):
    for _ in range(n): await asyncio.sleep(0)
async def work(x=1):
    await asyncio.sleep(3600)

async def session(path, lines, width=80, timeout=1.0):
    r, w = await asyncio.open_unix_connection(path)
    w.write(json.dumps({"terminal_width": width}).encode()+b"\n"); await w.drain()
    out=[]
    try:
        hs = await asyncio.wait_for(r.readline(), timeout)
        out.append(('handshake', hs))
    except BaseException as e:
        out.append(('handshake-fail', repr(e)))
        w.close(); return out
    for l in lines:
        w.write(l.encode()+b"\n"); await w.drain()
        try:
            data = await asyncio.wait_for(r.read(100000), timeout)
            out.append((l, data.decode()))
        except BaseException as e:
            out.append((l, 'ERR '+repr(e)))
    w.close()
    return out

async def main():
    path = "/tmp/probe/sock"
    if os.path.exists(path): os.unlink(path)
    pool = TaskPool(name="P")
    srv = UnixControlServer(pool, socket_path=path)
    loop = asyncio.get_running_loop()
    errs=[]
    loop.set_exception_handler(lambda l,c: errs.append(c))
    t = await srv.serve_forever()
    await settle()
    cmds = ["-h", "num-running", "pool-size", "pool-size 5", "pool-size", "pool-size -1", "apply -h", "foo", "is-locked", "lock", "is-locked", "unlock",
            "apply p5.work", "apply p5.work -n 3 -g grp", "num-running", "get-group-ids grp", "get-group-ids", "get-group-ids nope", "cancel 0", "cancel 0", "cancel 99 1", "num-running",
            "map p5.work [1,2,3] -n 2", "num-running", "cancel-all", "flush", "num-running", "apply", "apply nonexist.func", "cancel x", "  ", "num-running extra", "pool-size abc", "cancel-group grp -m hi", "is-full", "until-closed -h"]
    sys.path.insert(0, "/tmp/probe")
    res = await session(path, cmds)
    for r in res: print(repr(r)[:400])
    print("errors in loop:", [ (c.get('message'), repr(c.get('exception'))) for c in errs][:5])
    t.cancel()
    try:
        await asyncio.wait_for(t, 1); print("server task done; socket exists:", os.path.exists(path))
    except BaseException as e: print("server stop:", repr(e), "socket exists:", os.path.exists(path))
if __name__ == "__main__":
    asyncio.run(main())
