import asyncio, logging, warnings
from asyncio_taskpool import TaskPool, SimpleTaskPool
logging.disable(logging.CRITICAL)
warnings.simplefilter("ignore")
async def settle(n=20):
    for _ in range(n): await asyncio.sleep(0)

async def work(ev):
    await ev.wait()

async def c13():
    print("== C13 flush race")
    p = TaskPool(pool_size=3)
    evA, evB = asyncio.Event(), asyncio.Event()
    gateA, gateB = asyncio.Event(), asyncio.Event()
    endcalls=[]
    async def slow_end_A(i):
        await gateA.wait(); endcalls.append(('endA', i))
    async def slow_cancel_B(i):
        await gateB.wait(); endcalls.append(('cancelB', i))
    def end_B(i): endcalls.append(('endB', i))
    p.apply(work, args=(evA,), end_callback=slow_end_A)
    await settle()
    p.apply(work, args=(evB,), cancel_callback=slow_cancel_B, end_callback=end_B)
    await settle()
    evA.set(); await settle()   # A (id0) ended, in slow end callback
    print(" before flush: run", p.num_running, "canc", p.num_cancelled, "ended", p.num_ended)
    fl = asyncio.create_task(p.flush(return_exceptions=True))
    await settle()
    p.cancel(1); await settle()   # B moves to cancelled, waits in slow cancel cb
    print(" during flush: run", p.num_running, "canc", p.num_cancelled, "ended", p.num_ended)
    gateA.set(); await settle()  # A done -> flush completes, clears cancelled incl. B
    print(" flush done", fl.done(), "run", p.num_running, "canc", p.num_cancelled, "ended", p.num_ended)
    gateB.set(); await settle()
    print(" after B cb: endcalls", endcalls, "free", p._enough_room._value, "(expected 3)")
    t = p._tasks_running  
    
async def c14():
    print("== C14/C02 stop right after start")
    rec=[]
    async def w():
        rec.append('s')
        try: await asyncio.sleep(3600)
        finally: rec.append('e')
    sp = SimpleTaskPool(w, pool_size=3)
    sp.start(3)
    await asyncio.sleep(0)
    ids = sp.stop(1)
    await settle()
    print(" stopped", ids, "running", sp.num_running, "rec", rec, "free", sp._enough_room._value)
    sp.stop_all(); await settle()
    print(" after stop_all: running", sp.num_running, "ended", sp.num_ended, "free", sp._enough_room._value, "(expected 3)")

async def main():
    for f in (c13, c14):
        try: await f()
        except BaseException as e: print(" PROBE ERROR", repr(e))
asyncio.run(main())
